use vstd::prelude::*;
use vstd::std_specs::iter::IteratorSpec;
verus! {

pub fn apply(mut f: impl FnMut(u8) -> u8, x: u8) -> (r: u8)
    requires f.requires((x,)),
{
    f(x)
}

pub fn caller(x: u8) -> u8 {
    let mut seen = false;
    apply(|y: u8| -> u8 { if seen { y } else { seen = true; 0 } }, x)
}

} // verus!
fn main() {}
