use vstd::prelude::*;
verus! {
pub struct D { pub x: u8 }
impl core::ops::Add<&u8> for D {
    type Output = D;
    fn add(self, other: &u8) -> (r: D) { D { x: 0 } }
}
impl vstd::std_specs::ops::AddSpecImpl<&u8> for D {
    open spec fn obeys_add_spec() -> bool { false }
    open spec fn add_req(self, rhs: &u8) -> bool { true }
    open spec fn add_spec(self, rhs: &u8) -> Self::Output { arbitrary() }
}
pub fn t(d: D, y: &u8) -> D { d + y }
}
fn main() {}
