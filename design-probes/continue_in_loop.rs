use vstd::prelude::*;
use vstd::std_specs::iter::IteratorSpec;
verus! {
pub fn f(v: &Vec<u8>) -> (n: u64) 
{
    let mut n = 0u64;
    let mut iter = v.iter();
    loop 
        invariant iter.obeys_prophetic_iter_laws(), iter.decrease() is Some, n <= 1,
        decreases iter.decrease().unwrap(),
    {
        match iter.next() {
            None => break,
            Some(x) => {
                if *x == 0 { continue; }
                n = 1;
            }
        }
    }
    n
}
}
fn main() {}
