use vstd::prelude::*;
verus! {
#[derive(Default)]
pub struct Attributes { pub a: bool, pub b: bool }

pub uninterp spec fn dflt() -> Attributes;

#[verifier::external_body]
pub struct AttrMap { _p: () }

impl AttrMap {
    pub uninterp spec fn m(&self) -> Map<u64, Attributes>;
    #[verifier::external_body]
    pub fn slot(&mut self, k: u64) -> (r: &mut Attributes) 
        ensures *r == (if old(self).m().dom().contains(k) { old(self).m()[k] } else { dflt() }),
                final(self).m() == old(self).m().insert(k, *final(r)),
    { unimplemented!() }
}

pub struct Store { pub attr_map: AttrMap }
impl Store {
    fn set_a(&mut self, k: u64) 
        ensures final(self).attr_map.m().dom().contains(k), final(self).attr_map.m()[k].a,
    {
        self.attr_map.slot(k).a = true;
    }
}
}
fn main() {}
