#![feature(allocator_api)]
use vstd::prelude::*;
use vstd::std_specs::iter::IteratorSpec;
verus! {

pub ghost enum DocV {
    Nil,
    Text(Seq<char>),
    Hardline,
    Line,      // space or newline
    LineSoft,  // nothing or newline
    Cat(Box<DocV>, Box<DocV>),
    Nest(int, Box<DocV>),
    Group(Box<DocV>),
    FlatAlt(Box<DocV>, Box<DocV>),  // (break, flat)
    Align(Box<DocV>),
}

#[verifier::external_body]
pub struct Arena<'a> { _p: core::marker::PhantomData<&'a ()> }
#[verifier::external_body]
#[verifier::reject_recursive_types(A)]
pub struct DocBuilder<'a, A> { _p: core::marker::PhantomData<&'a A> }
pub type ArenaDoc<'a> = DocBuilder<'a, Arena<'a>>;

impl<'a> View for DocBuilder<'a, Arena<'a>> { type V = DocV; uninterp spec fn view(&self) -> DocV; }

pub open spec fn cat(a: DocV, b: DocV) -> DocV { DocV::Cat(Box::new(a), Box::new(b)) }

pub trait IntoDoc { spec fn docv(&self) -> DocV; }
impl<'a> IntoDoc for ArenaDoc<'a> { open spec fn docv(&self) -> DocV { self@ } }
impl<'b> IntoDoc for &'b str { open spec fn docv(&self) -> DocV { DocV::Text(self@) } }
impl<'a> IntoDoc for Option<ArenaDoc<'a>> { open spec fn docv(&self) -> DocV { match self { Some(d) => d@, None => DocV::Nil } } }

impl<'a> Arena<'a> {
    #[verifier::external_body]
    pub fn nil(&'a self) -> (r: ArenaDoc<'a>) ensures r@ == DocV::Nil { unimplemented!() }
    #[verifier::external_body]
    pub fn space(&'a self) -> (r: ArenaDoc<'a>) ensures r@ == DocV::Text(seq![' ']) { unimplemented!() }
    #[verifier::external_body]
    pub fn hardline(&'a self) -> (r: ArenaDoc<'a>) ensures r@ == DocV::Hardline { unimplemented!() }
    #[verifier::external_body]
    pub fn line(&'a self) -> (r: ArenaDoc<'a>) ensures r@ == DocV::Line { unimplemented!() }
    #[verifier::external_body]
    pub fn line_(&'a self) -> (r: ArenaDoc<'a>) ensures r@ == DocV::LineSoft { unimplemented!() }
    #[verifier::external_body]
    pub fn intersperse<I: Iterator<Item = ArenaDoc<'a>>, S: IntoDoc>(&'a self, docs: I, sep: S) -> (r: ArenaDoc<'a>) { unimplemented!() }
    #[verifier::external_body]
    pub fn text(&'a self, s: &'a str) -> (r: ArenaDoc<'a>) ensures r@ == DocV::Text(s@) { unimplemented!() }
}

impl<'a> Clone for DocBuilder<'a, Arena<'a>> {
    #[verifier::external_body]
    fn clone(&self) -> (r: Self) ensures r@ == self@ { unimplemented!() }
}

impl<'a, E: IntoDoc> core::ops::Add<E> for DocBuilder<'a, Arena<'a>> {
    type Output = DocBuilder<'a, Arena<'a>>;
    #[verifier::external_body]
    fn add(self, other: E) -> (r: Self::Output) ensures r@ == cat(self@, other.docv()) { unimplemented!() }
}
impl<'a, E: IntoDoc> core::ops::AddAssign<E> for DocBuilder<'a, Arena<'a>> {
    #[verifier::external_body]
    fn add_assign(&mut self, other: E) ensures final(self)@ == cat(old(self)@, other.docv()) { unimplemented!() }
}

impl<'a, E: IntoDoc> vstd::std_specs::ops::AddSpecImpl<E> for DocBuilder<'a, Arena<'a>> {
    open spec fn obeys_add_spec() -> bool { false }
    open spec fn add_req(self, rhs: E) -> bool { true }
    open spec fn add_spec(self, rhs: E) -> Self::Output { arbitrary() }
}
impl<'a, E: IntoDoc> vstd::std_specs::ops::AddAssignSpecImpl<E> for DocBuilder<'a, Arena<'a>> {
    open spec fn obeys_add_assign_spec() -> bool { false }
    open spec fn add_assign_req(&self, rhs: E) -> bool { true }
    open spec fn add_assign_spec(&self, rhs: E) -> &Self { arbitrary() }
}
impl<'a> DocBuilder<'a, Arena<'a>> {
    #[verifier::external_body]
    pub fn nest(self, n: isize) -> (r: Self) ensures r@ == DocV::Nest(n as int, Box::new(self@)) { unimplemented!() }
    #[verifier::external_body]
    pub fn vp_add_str(self, s: &'a str) -> (r: Self) ensures r@ == cat(self@, DocV::Text(s@)) { unimplemented!() }
    #[verifier::external_body]
    pub fn group(self) -> (r: Self) ensures r@ == DocV::Group(Box::new(self@)) { unimplemented!() }
    #[verifier::external_body]
    pub fn flat_alt<E: IntoDoc>(self, that: E) -> (r: Self) ensures r@ == DocV::FlatAlt(Box::new(self@), Box::new(that.docv())) { unimplemented!() }
    #[verifier::external_body]
    pub fn enclose<E: IntoDoc, F: IntoDoc>(self, before: E, after: F) -> (r: Self) ensures r@ == cat(cat(before.docv(), self@), after.docv()) { unimplemented!() }
}


#[derive(Clone, Copy, PartialEq, Eq)]
pub enum SyntaxKind { Space, LineComment, BlockComment, Hash, Text, Let, None, Auto, Ident, Unary, Comma }

#[verifier::external_body]
pub struct SyntaxNode { _p: () }

pub trait AstNode<'a>: Sized {
    spec fn castable(k: SyntaxKind) -> bool;
    fn from_untyped(node: &'a SyntaxNode) -> (r: Option<Self>) ensures r is Some <==> Self::castable(node.kind_s());
    fn to_untyped(self) -> &'a SyntaxNode;
}

pub struct EcoString { pub s: String }
impl EcoString {
    #[verifier::external_body]
    pub fn count_linebreaks(&self) -> (r: usize) { unimplemented!() }
}

impl SyntaxNode {
    pub uninterp spec fn kind_s(&self) -> SyntaxKind;
    pub uninterp spec fn children_s<'a>(&'a self) -> Seq<&'a SyntaxNode>;
    #[verifier::external_body]
    pub fn kind(&self) -> (r: SyntaxKind) ensures r == self.kind_s() { unimplemented!() }
    #[verifier::external_body]
    pub fn text(&self) -> (r: &EcoString) { unimplemented!() }
    #[verifier::external_body]
    pub fn children(&self) -> (r: std::slice::Iter<'_, SyntaxNode>) ensures r.remaining() == self.children_s(), r.obeys_prophetic_iter_laws(), r.will_return_none(), r.decrease() is Some { unimplemented!() }
    pub fn cast<'a, T: AstNode<'a>>(&'a self) -> (r: Option<T>) ensures r is Some <==> T::castable(self.kind_s()) { T::from_untyped(self) }
}

#[derive(Clone, Copy, PartialEq, Eq)]
pub enum Mode { Markup, Code, CodeCont, Math }
#[derive(Clone, Copy)]
pub struct Context { pub mode: Mode, pub break_suppressed: bool }
impl Context {
    pub fn with_mode_if(&self, mode: Mode, cond: bool) -> Self {
        Self {
            mode: if cond { mode } else { self.mode },
            ..*self
        }
    }
}

pub struct Config { pub tab_spaces: usize }
pub struct PrettyPrinter<'a> { pub arena: Arena<'a>, pub config: Config }
impl<'a> PrettyPrinter<'a> {
    #[verifier::external_body]
    pub fn convert_comment(&'a self, _ctx: Context, node: &'a SyntaxNode) -> ArenaDoc<'a> { unimplemented!() }
}

#[derive(Debug, Clone, Copy, PartialEq, Eq)]
pub enum FoldStyle { Fit, Never, Always }

pub trait DocExt { fn repeat_n(self, n: usize) -> Self; }
impl<'a> DocExt for ArenaDoc<'a> {
    #[verifier::external_body]
    fn repeat_n(self, n: usize) -> Self { unimplemented!() }
}



#[verifier::external_type_specification]
#[verifier::external_body]
#[verifier::reject_recursive_types(T)]
#[verifier::reject_recursive_types(A)]
pub struct ExDrain<'a, T: 'a, A: std::alloc::Allocator>(std::vec::Drain<'a, T, A>);

pub assume_specification<'a, T, A: std::alloc::Allocator, R: std::ops::RangeBounds<usize>> [std::vec::Vec::<T, A>::drain] (v: &'a mut Vec<T, A>, r: R) -> (d: std::vec::Drain<'a, T, A>)
    ensures d.remaining() == old(v)@, final(v)@ == Seq::<T>::empty(), d.obeys_prophetic_iter_laws(), d.will_return_none(), d.decrease() is Some;

pub open spec fn docs_words(s: Seq<ArenaDoc<'_>>) -> Seq<DocV> { s.map_values(|d: ArenaDoc<'_>| d@) }

pub struct ListStylist<'a> {
    printer: &'a PrettyPrinter<'a>,
    can_attach: bool,
    free_comments: Vec<ArenaDoc<'a>>,
    items: Vec<Item<'a>>,
}

pub enum Item<'a> {
    Comment(ArenaDoc<'a>),
    Commented {
        body: ArenaDoc<'a>,
        after: Option<ArenaDoc<'a>>,
    },
    Linebreak(usize),
}

impl<'a> ListStylist<'a> {
    /// Attack free comments to the last item if possible.
    fn try_attach_comments(&mut self) -> bool {
        if self.can_attach && !self.free_comments.is_empty() {
            let arena = &self.printer.arena;
            if let Some(Item::Commented { after, .. }) = self.items.last_mut() {
                let added =
                    arena.space() + arena.intersperse(self.free_comments.drain(..), arena.space());
                match after {
                    Some(cmt) => *cmt += added,
                    Option::None => *after = Some(added),
                }
                return true;
            }
        }
        false
    }
}
} // verus!
fn main() {}
