use vstd::prelude::*;
use vstd::std_specs::iter::IteratorSpec;
verus! {

pub ghost enum DocV {
    Nil,
    Text(Seq<char>),
    Hardline,
    Line,      // space or newline
    LineSoft,  // nothing or newline
    Cat(Box<DocV>, Box<DocV>),
    Nest(int, Box<DocV>),
    Group(Box<DocV>),
    FlatAlt(Box<DocV>, Box<DocV>),  // (break, flat)
    Align(Box<DocV>),
}

#[verifier::external_body]
pub struct Arena<'a> { _p: core::marker::PhantomData<&'a ()> }
#[verifier::external_body]
#[verifier::reject_recursive_types(A)]
pub struct DocBuilder<'a, A> { _p: core::marker::PhantomData<&'a A> }
pub type ArenaDoc<'a> = DocBuilder<'a, Arena<'a>>;

impl<'a> View for DocBuilder<'a, Arena<'a>> { type V = DocV; uninterp spec fn view(&self) -> DocV; }

pub open spec fn cat(a: DocV, b: DocV) -> DocV { DocV::Cat(Box::new(a), Box::new(b)) }

pub trait IntoDoc { spec fn docv(&self) -> DocV; }
impl<'a> IntoDoc for ArenaDoc<'a> { open spec fn docv(&self) -> DocV { self@ } }
impl<'b> IntoDoc for &'b str { open spec fn docv(&self) -> DocV { DocV::Text(self@) } }
impl<'a> IntoDoc for Option<ArenaDoc<'a>> { open spec fn docv(&self) -> DocV { match self { Some(d) => d@, None => DocV::Nil } } }

impl<'a> Arena<'a> {
    #[verifier::external_body]
    pub fn nil(&'a self) -> (r: ArenaDoc<'a>) ensures r@ == DocV::Nil { unimplemented!() }
    #[verifier::external_body]
    pub fn space(&'a self) -> (r: ArenaDoc<'a>) ensures r@ == DocV::Text(seq![' ']) { unimplemented!() }
    #[verifier::external_body]
    pub fn hardline(&'a self) -> (r: ArenaDoc<'a>) ensures r@ == DocV::Hardline { unimplemented!() }
    #[verifier::external_body]
    pub fn line(&'a self) -> (r: ArenaDoc<'a>) ensures r@ == DocV::Line { unimplemented!() }
    #[verifier::external_body]
    pub fn line_(&'a self) -> (r: ArenaDoc<'a>) ensures r@ == DocV::LineSoft { unimplemented!() }
    #[verifier::external_body]
    pub fn intersperse<I: Iterator<Item = ArenaDoc<'a>>, S: IntoDoc>(&'a self, docs: I, sep: S) -> (r: ArenaDoc<'a>) { unimplemented!() }
    #[verifier::external_body]
    pub fn text(&'a self, s: &'a str) -> (r: ArenaDoc<'a>) ensures r@ == DocV::Text(s@) { unimplemented!() }
}

impl<'a> Clone for DocBuilder<'a, Arena<'a>> {
    #[verifier::external_body]
    fn clone(&self) -> (r: Self) ensures r@ == self@ { unimplemented!() }
}

impl<'a, E: IntoDoc> core::ops::Add<E> for DocBuilder<'a, Arena<'a>> {
    type Output = DocBuilder<'a, Arena<'a>>;
    #[verifier::external_body]
    fn add(self, other: E) -> (r: Self::Output) ensures r@ == cat(self@, other.docv()) { unimplemented!() }
}
impl<'a, E: IntoDoc> core::ops::AddAssign<E> for DocBuilder<'a, Arena<'a>> {
    #[verifier::external_body]
    fn add_assign(&mut self, other: E) ensures final(self)@ == cat(old(self)@, other.docv()) { unimplemented!() }
}

impl<'a, E: IntoDoc> vstd::std_specs::ops::AddSpecImpl<E> for DocBuilder<'a, Arena<'a>> {
    open spec fn obeys_add_spec() -> bool { false }
    open spec fn add_req(self, rhs: E) -> bool { true }
    open spec fn add_spec(self, rhs: E) -> Self::Output { arbitrary() }
}
impl<'a, E: IntoDoc> vstd::std_specs::ops::AddAssignSpecImpl<E> for DocBuilder<'a, Arena<'a>> {
    open spec fn obeys_add_assign_spec() -> bool { false }
    open spec fn add_assign_req(&self, rhs: E) -> bool { true }
    open spec fn add_assign_spec(&self, rhs: E) -> &Self { arbitrary() }
}
impl<'a> DocBuilder<'a, Arena<'a>> {
    #[verifier::external_body]
    pub fn nest(self, n: isize) -> (r: Self) ensures r@ == DocV::Nest(n as int, Box::new(self@)) { unimplemented!() }
    #[verifier::external_body]
    pub fn group(self) -> (r: Self) ensures r@ == DocV::Group(Box::new(self@)) { unimplemented!() }
    #[verifier::external_body]
    pub fn flat_alt<E: IntoDoc>(self, that: E) -> (r: Self) ensures r@ == DocV::FlatAlt(Box::new(self@), Box::new(that.docv())) { unimplemented!() }
    #[verifier::external_body]
    pub fn enclose<E: IntoDoc, F: IntoDoc>(self, before: E, after: F) -> (r: Self) ensures r@ == cat(cat(before.docv(), self@), after.docv()) { unimplemented!() }
}




// ---- line-comment transformer abstract interpretation ----
pub struct Tr { pub c2c: bool, pub c2o: bool, pub c2b: bool, pub o2c: bool, pub o2o: bool, pub o2b: bool }

pub open spec fn tr_id() -> Tr { Tr { c2c: true, c2o: false, c2b: false, o2c: false, o2o: true, o2b: false } }
pub open spec fn tr_nl() -> Tr { Tr { c2c: true, c2o: false, c2b: false, o2c: true, o2o: false, o2b: false } }
pub open spec fn tr_word() -> Tr { Tr { c2c: true, c2o: false, c2b: false, o2c: false, o2o: false, o2b: true } }
pub open spec fn tr_lc() -> Tr { Tr { c2c: false, c2o: true, c2b: false, o2c: false, o2o: false, o2b: true } }
pub open spec fn tr_seq(a: Tr, b: Tr) -> Tr {
    Tr {
        c2c: (a.c2c && b.c2c) || (a.c2o && b.o2c),
        c2o: (a.c2c && b.c2o) || (a.c2o && b.o2o),
        c2b: a.c2b || (a.c2c && b.c2b) || (a.c2o && b.o2b),
        o2c: (a.o2c && b.c2c) || (a.o2o && b.o2c),
        o2o: (a.o2c && b.c2o) || (a.o2o && b.o2o),
        o2b: a.o2b || (a.o2c && b.c2b) || (a.o2o && b.o2b),
    }
}
pub open spec fn tr_join(a: Tr, b: Tr) -> Tr {
    Tr { c2c: a.c2c || b.c2c, c2o: a.c2o || b.c2o, c2b: a.c2b || b.c2b, o2c: a.o2c || b.o2c, o2o: a.o2o || b.o2o, o2b: a.o2b || b.o2b }
}
pub open spec fn is_lc(s: Seq<char>) -> bool { s.len() >= 2 && s[0] == '/' && s[1] == '/' }
pub open spec fn is_blank(s: Seq<char>) -> bool { forall|i: int| 0 <= i < s.len() ==> s[i] == ' ' }

pub open spec fn tr(d: DocV, flat: bool) -> Tr decreases d {
    match d {
        DocV::Nil => tr_id(),
        DocV::Text(s) => if is_blank(s) { tr_id() } else if is_lc(s) { tr_lc() } else { tr_word() },
        DocV::Hardline => tr_nl(),
        DocV::Line => if flat { tr_id() } else { tr_nl() },
        DocV::LineSoft => if flat { tr_id() } else { tr_nl() },
        DocV::Cat(a, b) => tr_seq(tr(*a, flat), tr(*b, flat)),
        DocV::Nest(_, a) => tr(*a, flat),
        DocV::Align(a) => tr(*a, flat),
        DocV::Group(a) => if flat { tr(*a, true) } else { tr_join(tr(*a, true), tr(*a, false)) },
        DocV::FlatAlt(a, b) => if flat { tr(*b, true) } else { tr(*a, false) },
    }
}
/// From a closed state the doc never goes bad and never ends inside a line comment, in any layout.
pub open spec fn closed(d: DocV) -> bool {
    &&& !tr(d, true).c2b && !tr(d, true).c2o
    &&& !tr(d, false).c2b && !tr(d, false).c2o
}

impl<'a> Arena<'a> {
    #[verifier::external_body]
    pub fn textc(&'a self, s: &'static str) -> (r: ArenaDoc<'a>) ensures r@ == DocV::Text(s@) { unimplemented!() }
}

fn optional_paren<'a>(
    arena: &'a Arena<'a>,
    body: ArenaDoc<'a>,
    indent: usize,
    delims: (&'static str, &'static str),
) -> (r: ArenaDoc<'a>)
    requires closed(body@), !is_lc(delims.0@), !is_lc(delims.1@), indent <= isize::MAX,
    ensures closed(r@),
{
    let open = (arena.text(delims.0) + arena.hardline()).flat_alt(arena.nil());
    let close = (arena.hardline() + arena.text(delims.1)).flat_alt(arena.nil());
    proof { reveal_with_fuel(tr, 8); }
    ((open + body).nest(indent as isize) + close).group()
}

} // verus!
fn main() {}
