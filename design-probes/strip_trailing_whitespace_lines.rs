use vstd::prelude::*;
use vstd::std_specs::iter::*;
verus! {

#[verifier::external_type_specification]
#[verifier::external_body]
pub struct ExLines<'a>(core::str::Lines<'a>);

pub uninterp spec fn lines_spec<'a>(s: &'a str) -> Seq<&'a str>;

pub assume_specification<'a> [ str::lines ] (s: &'a str) -> (r: core::str::Lines<'a>)
    ensures r.remaining() == lines_spec(s), r.obeys_prophetic_iter_laws(), r.will_return_none(), r.decrease() is Some;

pub open spec fn is_ws(c: char) -> bool { c == ' ' || c == '\t' || c == '\r' }
pub assume_specification<'a> [ str::trim_end ] (s: &'a str) -> (out: &'a str)
    ensures out@.is_prefix_of(s@), out@.len() > 0 ==> !is_ws(out@.last());
pub assume_specification [ String::with_capacity ] (n: usize) -> (r: String)
    ensures r@ == Seq::<char>::empty();




pub open spec fn hygienic(r: Seq<char>) -> bool {
    &&& r.len() > 0 && r.last() == '\n'
    &&& forall|i: int| 0 < i < r.len() && r[i] == '\n' ==> !is_ws(#[trigger] r[i - 1])
}

/// Strip trailing whitespace in each line of the input string.
pub fn strip_trailing_whitespace(s: &str) -> (res: String) 
    requires s@.len() > 0 ==> lines_spec(s).len() > 0,
    ensures hygienic(res@)
{
    if s.is_empty() {
        let r = "\n".to_string(); proof { reveal_strlit("\n"); } return r;
    }
    let mut res = String::with_capacity(s.len());
    for line in it: s.lines() 
        invariant it.iter.obeys_prophetic_iter_laws(),
            res@.len() == 0 || hygienic(res@),
            it.seq() == lines_spec(s),
            it.index() > 0 ==> res@.len() > 0,
    {
        res.push_str(line.trim_end());
        res.push('\n');
    }
    res
}

} // verus!
fn main() {}
