use vstd::prelude::*;
use vstd::std_specs::iter::IteratorSpec;
verus! {

pub fn run<'a>(
        children: impl Iterator<Item = &'a u8>,
    ) -> (r: u64)
    requires children.obeys_prophetic_iter_laws(), children.will_return_none(), children.decrease() is Some,
    {
        let mut n = 0u64;
        for child in it: children 
            invariant it.iter.obeys_prophetic_iter_laws(),
        {
            if *child == 3 { n = 1; }
        }
        n
}

} // verus!
fn main() {}
