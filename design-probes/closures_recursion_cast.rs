use vstd::prelude::*;
use vstd::std_specs::iter::IteratorSpec;
verus! {

#[derive(Clone, Copy, PartialEq, Eq)]
pub enum SyntaxKind { Space, LineComment, BlockComment, Hash, Text, Let, None, Auto, Ident, Unary }

#[verifier::external_body]
pub struct SyntaxNode { _p: () }

pub trait AstNode<'a>: Sized {
    spec fn castable(k: SyntaxKind) -> bool;
    fn from_untyped(node: &'a SyntaxNode) -> (r: Option<Self>) ensures r is Some <==> Self::castable(node.kind_s());
    fn to_untyped(self) -> &'a SyntaxNode;
}

#[derive(Clone, Copy)]
pub struct Expr<'a>(&'a SyntaxNode);

impl<'a> AstNode<'a> for Expr<'a> {
    open spec fn castable(k: SyntaxKind) -> bool { k == SyntaxKind::Ident || k == SyntaxKind::Unary }
    #[verifier::external_body]
    fn from_untyped(node: &'a SyntaxNode) -> (r: Option<Self>) { unimplemented!() }
    #[verifier::external_body]
    fn to_untyped(self) -> &'a SyntaxNode { unimplemented!() }
}

impl SyntaxNode {
    pub uninterp spec fn kind_s(&self) -> SyntaxKind;
    pub uninterp spec fn children_s<'a>(&'a self) -> Seq<&'a SyntaxNode>;
    #[verifier::external_body]
    pub fn kind(&self) -> (r: SyntaxKind) ensures r == self.kind_s() { unimplemented!() }
    #[verifier::external_body]
    pub fn children(&self) -> (r: std::slice::Iter<'_, SyntaxNode>) ensures r.remaining() == self.children_s(), r.obeys_prophetic_iter_laws(), r.will_return_none(), r.decrease() is Some { unimplemented!() }
    pub fn cast<'a, T: AstNode<'a>>(&'a self) -> (r: Option<T>) ensures r is Some <==> T::castable(self.kind_s()) { T::from_untyped(self) }
}

pub ghost enum DocV { Nil, Text(Seq<char>), Hardline, Cat(Box<DocV>, Box<DocV>) }

#[verifier::external_body]
pub struct Arena<'a> { _p: core::marker::PhantomData<&'a ()> }
#[verifier::external_body]
pub struct ArenaDoc<'a> { _p: core::marker::PhantomData<&'a ()> }

impl<'a> View for ArenaDoc<'a> { type V = DocV; uninterp spec fn view(&self) -> DocV; }

impl<'a> Arena<'a> {
    #[verifier::external_body]
    pub fn nil(&'a self) -> (r: ArenaDoc<'a>) ensures r@ == DocV::Nil { unimplemented!() }
    #[verifier::external_body]
    pub fn space(&'a self) -> (r: ArenaDoc<'a>) ensures r@ == DocV::Text(seq![' ']) { unimplemented!() }
}

#[derive(Clone, Copy)]
pub struct Context { pub mode: u8, pub break_suppressed: bool }

pub struct FlowItem<'a>(pub Option<ArenaDoc<'a>>);

pub struct PrettyPrinter<'a> { arena: Arena<'a> }

impl<'a> PrettyPrinter<'a> {

    #[verifier::exec_allows_no_decreases_clause]
    pub fn convert_expr(&'a self, ctx: Context, expr: Expr<'a>) -> ArenaDoc<'a> {
        if expr.to_untyped().kind() == SyntaxKind::Unary {
            self.convert_expr_flow(ctx, expr.to_untyped())
        } else {
            self.arena.space()
        }
    }

    #[verifier::exec_allows_no_decreases_clause]
    pub fn convert_expr_flow(&'a self, ctx: Context, node: &'a SyntaxNode) -> ArenaDoc<'a> {
        self.convert_flow_like(ctx, node, |ctx: Context, child: &'a SyntaxNode| -> (item: FlowItem<'a>) ensures item.0 is Some <==> Expr::castable(child.kind_s()) {
            if let Some(expr) = child.cast() {
                FlowItem(Some(self.convert_expr(ctx, expr)))
            } else {
                FlowItem(None)
            }
        })
    }

    #[verifier::exec_allows_no_decreases_clause]
    pub fn convert_flow_like(
        &'a self,
        ctx: Context,
        node: &'a SyntaxNode,
        mut producer: impl FnMut(Context, &'a SyntaxNode) -> FlowItem<'a>,
    ) -> ArenaDoc<'a> 
        requires forall|c: Context, n: &'a SyntaxNode| producer.requires((c, n)),
 ensures true,
    {
        let mut doc = self.arena.nil();
        for child in it: node.children() 
 invariant forall|c: Context, n: &'a SyntaxNode| producer.requires((c, n)),
 {
            let item = producer(ctx, child);
            if let Some(repr) = item.0 {
                doc = repr;
            }
        }
        doc
    }
}

} // verus!
fn main() {}
