use vstd::prelude::*;
use vstd::std_specs::iter::IteratorSpec;
verus! {

pub ghost enum DocV {
    Nil,
    Text(Seq<char>),
    Hardline,
    Line,      // space or newline
    LineSoft,  // nothing or newline
    Cat(Box<DocV>, Box<DocV>),
    Nest(int, Box<DocV>),
    Group(Box<DocV>),
    FlatAlt(Box<DocV>, Box<DocV>),  // (break, flat)
    Align(Box<DocV>),
}

#[verifier::external_body]
pub struct Arena<'a> { _p: core::marker::PhantomData<&'a ()> }
#[verifier::external_body]
#[verifier::reject_recursive_types(A)]
pub struct DocBuilder<'a, A> { _p: core::marker::PhantomData<&'a A> }
pub type ArenaDoc<'a> = DocBuilder<'a, Arena<'a>>;

impl<'a> View for DocBuilder<'a, Arena<'a>> { type V = DocV; uninterp spec fn view(&self) -> DocV; }

pub open spec fn cat(a: DocV, b: DocV) -> DocV { DocV::Cat(Box::new(a), Box::new(b)) }

pub trait IntoDoc { spec fn docv(&self) -> DocV; }
impl<'a> IntoDoc for ArenaDoc<'a> { open spec fn docv(&self) -> DocV { self@ } }
impl<'b> IntoDoc for &'b str { open spec fn docv(&self) -> DocV { DocV::Text(self@) } }
impl<'a> IntoDoc for Option<ArenaDoc<'a>> { open spec fn docv(&self) -> DocV { match self { Some(d) => d@, None => DocV::Nil } } }

impl<'a> Arena<'a> {
    #[verifier::external_body]
    pub fn nil(&'a self) -> (r: ArenaDoc<'a>) ensures r@ == DocV::Nil { unimplemented!() }
    #[verifier::external_body]
    pub fn space(&'a self) -> (r: ArenaDoc<'a>) ensures r@ == DocV::Text(seq![' ']) { unimplemented!() }
    #[verifier::external_body]
    pub fn hardline(&'a self) -> (r: ArenaDoc<'a>) ensures r@ == DocV::Hardline { unimplemented!() }
    #[verifier::external_body]
    pub fn line(&'a self) -> (r: ArenaDoc<'a>) ensures r@ == DocV::Line { unimplemented!() }
    #[verifier::external_body]
    pub fn line_(&'a self) -> (r: ArenaDoc<'a>) ensures r@ == DocV::LineSoft { unimplemented!() }
    #[verifier::external_body]
    pub fn intersperse<I: Iterator<Item = ArenaDoc<'a>>, S: IntoDoc>(&'a self, docs: I, sep: S) -> (r: ArenaDoc<'a>) { unimplemented!() }
    #[verifier::external_body]
    pub fn text(&'a self, s: &'a str) -> (r: ArenaDoc<'a>) ensures r@ == DocV::Text(s@) { unimplemented!() }
}

impl<'a> Clone for DocBuilder<'a, Arena<'a>> {
    #[verifier::external_body]
    fn clone(&self) -> (r: Self) ensures r@ == self@ { unimplemented!() }
}

impl<'a, E: IntoDoc> core::ops::Add<E> for DocBuilder<'a, Arena<'a>> {
    type Output = DocBuilder<'a, Arena<'a>>;
    #[verifier::external_body]
    fn add(self, other: E) -> (r: Self::Output) ensures r@ == cat(self@, other.docv()) { unimplemented!() }
}
impl<'a, E: IntoDoc> core::ops::AddAssign<E> for DocBuilder<'a, Arena<'a>> {
    #[verifier::external_body]
    fn add_assign(&mut self, other: E) ensures final(self)@ == cat(old(self)@, other.docv()) { unimplemented!() }
}

impl<'a, E: IntoDoc> vstd::std_specs::ops::AddSpecImpl<E> for DocBuilder<'a, Arena<'a>> {
    open spec fn obeys_add_spec() -> bool { false }
    open spec fn add_req(self, rhs: E) -> bool { true }
    open spec fn add_spec(self, rhs: E) -> Self::Output { arbitrary() }
}
impl<'a, E: IntoDoc> vstd::std_specs::ops::AddAssignSpecImpl<E> for DocBuilder<'a, Arena<'a>> {
    open spec fn obeys_add_assign_spec() -> bool { false }
    open spec fn add_assign_req(&self, rhs: E) -> bool { true }
    open spec fn add_assign_spec(&self, rhs: E) -> &Self { arbitrary() }
}
impl<'a> DocBuilder<'a, Arena<'a>> {
    #[verifier::external_body]
    pub fn nest(self, n: isize) -> (r: Self) ensures r@ == DocV::Nest(n as int, Box::new(self@)) { unimplemented!() }
    #[verifier::external_body]
    pub fn vp_add_str(self, s: &'a str) -> (r: Self) ensures r@ == cat(self@, DocV::Text(s@)) { unimplemented!() }
    #[verifier::external_body]
    pub fn group(self) -> (r: Self) ensures r@ == DocV::Group(Box::new(self@)) { unimplemented!() }
    #[verifier::external_body]
    pub fn flat_alt<E: IntoDoc>(self, that: E) -> (r: Self) ensures r@ == DocV::FlatAlt(Box::new(self@), Box::new(that.docv())) { unimplemented!() }
    #[verifier::external_body]
    pub fn enclose<E: IntoDoc, F: IntoDoc>(self, before: E, after: F) -> (r: Self) ensures r@ == cat(cat(before.docv(), self@), after.docv()) { unimplemented!() }
}


#[derive(Clone, Copy, PartialEq, Eq)]
pub enum SyntaxKind { Space, LineComment, BlockComment, Hash, Text, Let, None, Auto, Ident, Unary, Comma }

#[verifier::external_body]
pub struct SyntaxNode { _p: () }

pub trait AstNode<'a>: Sized {
    spec fn castable(k: SyntaxKind) -> bool;
    fn from_untyped(node: &'a SyntaxNode) -> (r: Option<Self>) ensures r is Some <==> Self::castable(node.kind_s());
    fn to_untyped(self) -> &'a SyntaxNode;
}

pub struct EcoString { pub s: String }
impl EcoString {
    #[verifier::external_body]
    pub fn count_linebreaks(&self) -> (r: usize) { unimplemented!() }
}

impl SyntaxNode {
    pub uninterp spec fn kind_s(&self) -> SyntaxKind;
    pub uninterp spec fn children_s<'a>(&'a self) -> Seq<&'a SyntaxNode>;
    #[verifier::external_body]
    pub fn kind(&self) -> (r: SyntaxKind) ensures r == self.kind_s() { unimplemented!() }
    #[verifier::external_body]
    pub fn text(&self) -> (r: &EcoString) { unimplemented!() }
    #[verifier::external_body]
    pub fn children(&self) -> (r: std::slice::Iter<'_, SyntaxNode>) ensures r.remaining() == self.children_s(), r.obeys_prophetic_iter_laws(), r.will_return_none(), r.decrease() is Some { unimplemented!() }
    pub fn cast<'a, T: AstNode<'a>>(&'a self) -> (r: Option<T>) ensures r is Some <==> T::castable(self.kind_s()) { T::from_untyped(self) }
}

#[derive(Clone, Copy, PartialEq, Eq)]
pub enum Mode { Markup, Code, CodeCont, Math }
#[derive(Clone, Copy)]
pub struct Context { pub mode: Mode, pub break_suppressed: bool }
impl Context {
    pub fn with_mode_if(&self, mode: Mode, cond: bool) -> Self {
        Self {
            mode: if cond { mode } else { self.mode },
            ..*self
        }
    }
}

pub struct Config { pub tab_spaces: usize }
pub struct PrettyPrinter<'a> { pub arena: Arena<'a>, pub config: Config }
impl<'a> PrettyPrinter<'a> {
    #[verifier::external_body]
    pub fn convert_comment(&'a self, _ctx: Context, node: &'a SyntaxNode) -> ArenaDoc<'a> { unimplemented!() }
}

#[derive(Debug, Clone, Copy, PartialEq, Eq)]
pub enum FoldStyle { Fit, Never, Always }

pub trait DocExt { fn repeat_n(self, n: usize) -> Self; }
impl<'a> DocExt for ArenaDoc<'a> {
    #[verifier::external_body]
    fn repeat_n(self, n: usize) -> Self { unimplemented!() }
}

pub struct ListStylist<'a> {
    printer: &'a PrettyPrinter<'a>,
    can_attach: bool,
    free_comments: Vec<ArenaDoc<'a>>,
    peek_hash: bool,
    items: Vec<Item<'a>>,
    real_item_count: usize,
    has_comment: bool,
    has_line_comment: bool,
    fold_style: FoldStyle,
    disallow_front_comment: bool,
    disallow_comment_detach: bool,
    /// Some: max_consecutive_lines; None: ignore
    keep_linebreak: Option<usize>,
}

enum Item<'a> {
    /// Detached comments that can be put on a line.
    Comment(ArenaDoc<'a>),
    /// List item with attached comments.
    Commented {
        /// The list item.
        body: ArenaDoc<'a>,
        /// Attached comments. Leading space included.
        after: Option<ArenaDoc<'a>>,
    },
    /// Linebreaks
    Linebreak(usize),
}

pub struct ListStyle {
    /// The separator between items.
    pub separator: &'static str,
    /// The delimiter of the list.
    pub delim: (&'static str, &'static str),
    /// Whether can add linebreaks inside the delimiters.
    pub tight_delim: bool,
    /// Whether to add an addition space inside the delimiters if the list is flat.
    pub add_delim_space: bool,
    /// Whether a trailing separator is need if the list contains only one item.
    pub add_trailing_sep_single: bool,
    /// Whether a trailing separator is always needed.
    pub add_trailing_sep_always: bool,
    /// Whether can omit the delimiter if the list contains only one item.
    pub omit_delim_single: bool,
    /// Whether can omit the delimiter if the list is flat.
    pub omit_delim_flat: bool,
    /// Whether can omit the delimiter if the list is empty.
    pub omit_delim_empty: bool,
    /// Whether not to indent the items.
    pub no_indent: bool,
}

impl Default for ListStyle {
    fn default() -> Self {
        Self {
            separator: ",",
            delim: ("(", ")"),
            tight_delim: false,
            add_delim_space: false,
            add_trailing_sep_single: false,
            add_trailing_sep_always: false,
            omit_delim_single: false,
            omit_delim_flat: false,
            omit_delim_empty: false,
            no_indent: false,
        }
    }
}

impl<'a> ListStylist<'a> {
    pub fn new(printer: &'a PrettyPrinter<'a>) -> Self {
        Self {
            printer,
            can_attach: false,
            free_comments: Default::default(),
            peek_hash: false,
            items: Default::default(),
            real_item_count: 0,
            has_comment: false,
            has_line_comment: false,
            fold_style: FoldStyle::Fit,
            disallow_front_comment: false,
            disallow_comment_detach: false,
            keep_linebreak: None,
        }
    }

    pub fn keep_linebreak(self, count: usize) -> Self { let mut slf = self;
        slf.keep_linebreak = Some(count);
        slf
    }

    pub fn disallow_front_comment(self) -> Self { let mut slf = self; 
        slf.disallow_front_comment = true;
        slf
    }

    pub fn with_fold_style(self, fold_style: FoldStyle) -> Self { let mut slf = self;
        slf.fold_style = fold_style;
        if fold_style == FoldStyle::Always {
            slf.disallow_comment_detach = true;
        }
        slf
    }

    /// Force to fold if the predicate is true. Has no effect the list contains any comment.
    pub fn always_fold_if(self, pred: impl FnOnce() -> bool) -> Self { let mut slf = self;
        if !slf.has_comment && pred() {
            slf.fold_style = FoldStyle::Always;
        }
        slf
    }
}

impl<'a> ListStylist<'a> {
    /// Process a list of `AstNode`'s.
    pub fn process_list<T: AstNode<'a>>(
        self,
        ctx: Context,
        list_node: &'a SyntaxNode,
        item_converter: impl Fn(Context, T) -> ArenaDoc<'a>,
    ) -> Self {
        self.process_list_impl(ctx, list_node, |ctx, node| {
            node.cast().map(|node| item_converter(ctx, node))
        })
    }

    /// Process a list of any nodes. Only use this when the node does not implement `AstNode`.
    pub fn process_list_impl(
        self,
        ctx: Context,
        list_node: &'a SyntaxNode,
        item_checker: impl FnMut(Context, &'a SyntaxNode) -> Option<ArenaDoc<'a>>,
    ) -> Self {
        self.process_iterable_impl(ctx, list_node.children(), item_checker)
    }

    pub fn process_iterable<T: AstNode<'a>>(
        self,
        ctx: Context,
        iterable: impl Iterator<Item = &'a SyntaxNode>,
        item_converter: impl Fn(Context, T) -> ArenaDoc<'a>,
    ) -> Self {
        self.process_iterable_impl(ctx, iterable, |ctx, node| {
            node.cast().map(|node| item_converter(ctx, node))
        })
    }

    /// Process an iterable of nodes.
    pub fn process_iterable_impl(
        self,
        ctx: Context,
        iterable: impl Iterator<Item = &'a SyntaxNode>,
        mut item_checker: impl FnMut(Context, &'a SyntaxNode) -> Option<ArenaDoc<'a>>,
    ) -> Self { let mut slf = self;
        // Each item can be attached with comments at the front and back.
        // Can break line after front attachments.
        // If the back attachment appears before the comma, the comma is move to its front if multiline.

        for node in iterable {
            let ctx = ctx.with_mode_if(Mode::Code, slf.peek_hash);
            if let Some(item_body) = item_checker(ctx, node) {
                slf.add_item(item_body);
                slf.peek_hash = false;
            } else {
                slf.peek_hash = false;
                slf.process_trivia(ctx, node);
            }
        }

        slf.process_windup();

        slf
    }

    fn add_item(&mut self, item_body: ArenaDoc<'a>) {
        let arena = &self.printer.arena;

        self.real_item_count += 1;
        let before = if self.disallow_front_comment {
            self.detach_comments();
            arena.nil()
        } else if self.free_comments.is_empty() {
            arena.nil()
        } else {
            // TODO - this may work with FoldStyle::Always
            let sep = if self.disallow_comment_detach {
                arena.space()
            } else {
                arena.line()
            };
            let doc = arena.intersperse(self.free_comments.drain(..), sep.clone()) + sep;
            if self.disallow_comment_detach {
                doc
            } else {
                doc.group()
            }
        };
        let hash = if self.peek_hash {
            arena.text("#")
        } else {
            arena.nil()
        };
        self.items.push(Item::Commented {
            body: (before + hash + item_body),
            after: None,
        });
        self.can_attach = true;
    }

    fn process_trivia(&mut self, ctx: Context, node: &'a SyntaxNode) {
        match node.kind() {
            SyntaxKind::LineComment | SyntaxKind::BlockComment => {
                self.has_comment = true;
                // Line comment cannot appear in single line block
                if node.kind() == SyntaxKind::LineComment {
                    self.has_line_comment = true;
                    self.fold_style = FoldStyle::Never;
                }
                self.free_comments
                    .push(self.printer.convert_comment(ctx, node));
            }
            SyntaxKind::Comma => {
                self.try_attach_comments();
            }
            SyntaxKind::Space => {
                let newline_cnt = node.text().count_linebreaks();
                if newline_cnt > 0 {
                    self.attach_or_detach_comments();
                    self.can_attach = false;
                    if let Some(nl) = self.keep_linebreak {
                        if newline_cnt >= 2 && !self.items.is_empty() {
                            self.items.push(Item::Linebreak((newline_cnt - 1).min(nl)));
                        }
                    }
                }
            }
            SyntaxKind::Hash => {
                self.peek_hash = true;
            }
            _ => {}
        }
    }

    /// Process remaining free comments and trailing lines.
    fn process_windup(&mut self) {
        self.attach_or_detach_comments();
        while let Some(Item::Linebreak(_)) = self.items.last() {
            self.items.pop();
        }
    }

    /// Try attaching free comments. If it fails, detach them.
    fn attach_or_detach_comments(&mut self) {
        if !self.try_attach_comments() {
            self.detach_comments();
        }
    }

    /// Attack free comments to the last item if possible.
    fn try_attach_comments(&mut self) -> bool {
        if self.can_attach && !self.free_comments.is_empty() {
            let arena = &self.printer.arena;
            if let Some(Item::Commented { after, .. }) = self.items.last_mut() {
                let added =
                    arena.space() + arena.intersperse(self.free_comments.drain(..), arena.space());
                match after {
                    Some(cmt) => *cmt += added,
                    Option::None => *after = Some(added),
                }
                return true;
            }
        }
        false
    }

    /// Make all free comments detached.
    fn detach_comments(&mut self) {
        self.items
            .extend(self.free_comments.drain(..).map(|c| Item::Comment(c)));
    }
}

impl<'a> ListStylist<'a> {
    /// Create Doc from items in self.
    ///
    /// For attached comments:
    /// - break: `xxx, /* yyy */`, `xxx,`
    /// - flat: `xxx /* yyy */, `, `xxx, `
    pub fn print_doc(self, sty: ListStyle) -> ArenaDoc<'a> {
        let arena = &self.printer.arena;

        let delim = sty.delim;
        if self.items.is_empty() {
            return if sty.omit_delim_empty {
                arena.nil()
            } else if sty.add_delim_space {
                (arena.text(delim.0) + arena.space()).vp_add_str(delim.1)
            } else {
                arena.text(delim.0).vp_add_str(delim.1)
            };
        }

        let is_single = self.real_item_count == 1;
        let sep = arena.text(sty.separator);
        let indent = self.printer.config.tab_spaces;
        let fold_style = if self.has_line_comment {
            FoldStyle::Never
        } else {
            self.fold_style
        };
        let item_count = self.items.len();
        let mut seen_real_items = 0;
        match fold_style {
            FoldStyle::Never => {
                let mut inner = if sty.tight_delim {
                    arena.nil()
                } else {
                    arena.hardline()
                };
                for (i, item) in self.items.into_iter().enumerate() {
                    let is_last = i + 1 == item_count;
                    match item {
                        Item::Comment(cmt) => inner += cmt + arena.hardline(),
                        Item::Commented { body, after } => {
                            seen_real_items += 1;
                            inner += body + sep.clone() + after;
                            if !sty.tight_delim || !is_last {
                                inner += arena.hardline();
                            }
                        }
                        Item::Linebreak(n) => inner += arena.hardline().repeat_n(n),
                    }
                }
                if !sty.no_indent {
                    inner = inner.nest(indent as isize);
                }
                inner.enclose(delim.0, delim.1)
            }
            FoldStyle::Always => {
                // TODO - this may implies `tight_delim`
                let mut inner = arena.nil();
                for (i, item) in self.items.into_iter().enumerate() {
                    let is_last = i + 1 == item_count;
                    match item {
                        Item::Comment(cmt) => {
                            inner += if is_last && sty.tight_delim {
                                cmt
                            } else {
                                cmt + arena.space()
                            }
                        }
                        Item::Commented { body, after } => {
                            seen_real_items += 1;
                            let is_last_real = seen_real_items == self.real_item_count;
                            inner += body + after;
                            if !is_last_real {
                                inner += sep.clone() + arena.space();
                            } else if sty.add_trailing_sep_always
                                || is_single && sty.add_trailing_sep_single
                            {
                                // trailing comma for one-size array
                                inner += sep.clone();
                            }
                        }
                        Item::Linebreak(_) => (),
                    }
                }
                inner = inner.group();
                if is_single && sty.omit_delim_single || sty.omit_delim_flat {
                    inner
                } else if sty.add_delim_space {
                    inner
                        .enclose(arena.space(), arena.space())
                        .enclose(delim.0, delim.1)
                } else {
                    inner.enclose(delim.0, delim.1)
                }
            }
            FoldStyle::Fit => {
                let mut inner = if sty.tight_delim {
                    arena.nil()
                } else {
                    arena.line_()
                };
                for (i, item) in self.items.into_iter().enumerate() {
                    let is_last = i + 1 == item_count;
                    match item {
                        Item::Comment(cmt) => {
                            inner += if is_last && sty.tight_delim {
                                cmt
                            } else {
                                cmt + arena.hardline()
                            }
                        }
                        Item::Commented { body, after } => {
                            seen_real_items += 1;
                            let is_last_real = seen_real_items == self.real_item_count;
                            let follow = if let Some(after) = after {
                                let follow_break = sep.clone() + after.clone();
                                let follow_flat = if !is_last_real
                                    || sty.add_trailing_sep_always
                                    || is_single && sty.add_trailing_sep_single
                                {
                                    after + sep.clone()
                                } else {
                                    after
                                };
                                follow_break.flat_alt(follow_flat)
                            } else {
                                let follow = if is_last_real && sty.tight_delim {
                                    arena.nil()
                                } else if !is_last_real
                                    || sty.add_trailing_sep_always
                                    || is_single && sty.add_trailing_sep_single
                                {
                                    sep.clone()
                                } else {
                                    sep.clone().flat_alt(arena.nil())
                                };
                                follow
                            };
                            let ln = if !is_last_real {
                                arena.line()
                            } else if sty.tight_delim {
                                arena.nil()
                            } else {
                                arena.line_()
                            };
                            inner += body + follow + ln;
                        }
                        Item::Linebreak(n) => inner += arena.line().repeat_n(n),
                    }
                }
                if !sty.no_indent {
                    inner = inner.nest(indent as isize);
                }
                if is_single && sty.omit_delim_single {
                    inner.group()
                } else if sty.omit_delim_flat {
                    inner
                        .enclose(
                            arena.text(delim.0).flat_alt(arena.nil()),
                            arena.text(delim.1).flat_alt(arena.nil()),
                        )
                        .group()
                } else if sty.add_delim_space {
                    inner
                        .enclose(
                            arena
                                .text(delim.0)
                                .flat_alt(arena.text(delim.0) + arena.space()),
                            arena
                                .text(delim.1)
                                .flat_alt(arena.space() + arena.text(delim.1)),
                        )
                        .group()
                } else {
                    inner.group().enclose(delim.0, delim.1)
                }
            }
        }
    }
}

} // verus!
fn main() {}
