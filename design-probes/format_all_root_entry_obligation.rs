use vstd::prelude::*;
use vstd::std_specs::iter::IteratorSpec;
verus! {

// ---------- shims ----------
#[verifier::external_body] pub struct PathBuf { _p: () }
#[verifier::external_body] pub struct Path { _p: () }
#[verifier::external_body] pub struct DirEntry { _p: () }
#[verifier::external_body] pub struct AnyErr { _p: () }
pub type Result<T> = core::result::Result<T, AnyErr>;
#[verifier::external_body] pub struct FileType { _p: () }
#[verifier::external_body] pub struct Instant { _p: () }
#[verifier::external_body] pub struct Duration { _p: () }

pub struct StyleArgs { pub column: usize, pub tab_width: usize, pub reorder_import_items: bool }
pub struct CliArguments { pub check: bool, pub inplace: bool, pub style: StyleArgs }
pub struct Config { pub tab_spaces: usize, pub max_width: usize, pub blank_lines_upper_bound: usize, pub reorder_import_items: bool }

pub uninterp spec fn the_args() -> CliArguments;
pub uninterp spec fn fmt_s(content: Seq<char>, cfg: Config) -> Option<Seq<char>>;
pub uninterp spec fn file_content(p: &Path, s: Seq<char>) -> bool;
pub uninterp spec fn eligible(p: &Path) -> bool;

impl DirEntry {
    pub uninterp spec fn depth_s(&self) -> nat;
    pub uninterp spec fn hidden_s(&self) -> bool;
    pub uninterp spec fn path_s(&self) -> &Path;
    pub uninterp spec fn is_typ_file_s(&self) -> bool;
    #[verifier::external_body] pub fn path(&self) -> (r: &Path) ensures r == self.path_s() { unimplemented!() }
    #[verifier::external_body] pub fn is_typ_file(&self) -> (r: bool) ensures r == self.is_typ_file_s() { unimplemented!() }
}

#[verifier::external_body]
pub fn is_hidden(entry: &DirEntry) -> (r: bool) ensures r == entry.hidden_s() { unimplemented!() }

#[verifier::external_body] pub struct Walk { _p: () }
#[verifier::external_body]
#[verifier::reject_recursive_types(P)]
pub struct Filtered<P> { _p: core::marker::PhantomData<P> }

#[verifier::external_body] pub fn walk_new(d: PathBuf) -> Walk { unimplemented!() }

impl Walk {
    #[verifier::external_body]
    pub fn filter_entry<P: FnMut(&DirEntry) -> bool>(self, predicate: P) -> (r: Vec<DirEntry>)
        requires
            forall|e: &DirEntry| predicate.requires((e,)),
            // C15 root-entry obligation
            forall|e: &DirEntry, b: bool| e.depth_s() == 0 && predicate.ensures((e,), b) ==> b,
        ensures
            forall|i: int| 0 <= i < r@.len() ==> predicate.ensures((&#[trigger] r@[i],), true),
    { unimplemented!() }
}

#[verifier::external_body]
pub fn read_to_string(p: &Path) -> (r: core::result::Result<String, AnyErr>)
    ensures r matches Ok(s) ==> file_content(p, s@) { unimplemented!() }

#[verifier::external_body]
pub fn write_back(path: &Path, content: &str) -> (r: Result<()>)
    requires !the_args().check,
        exists|old: Seq<char>| file_content(path, old) && fmt_s(old, to_config_s(the_args().style)) == Some(content@) && content@ != old,
{ unimplemented!() }

pub open spec fn to_config_s(s: StyleArgs) -> Config { Config { max_width: s.column, tab_spaces: s.tab_width, reorder_import_items: s.reorder_import_items, blank_lines_upper_bound: 2 } }

impl StyleArgs {
    pub fn to_config(&self) -> (r: Config) ensures r == to_config_s(*self) {
        Config { max_width: self.column, tab_spaces: self.tab_width, reorder_import_items: self.reorder_import_items, blank_lines_upper_bound: 2 }
    }
}
#[verifier::external_body]
pub fn format_content(cfg: Config, content: &String) -> (r: core::result::Result<String, ()>)
    ensures (r matches Ok(s) ==> fmt_s(content@, cfg) == Some(s@)), (r is Err ==> fmt_s(content@, cfg) is None) { unimplemented!() }

#[verifier::external_body]
pub fn str_eq(a: &String, b: &String) -> (r: bool) ensures r == (a@ == b@) { unimplemented!() }

pub enum FormatStatus { Changed, Unchanged }

pub fn format_all(directory: PathBuf, args: &CliArguments) -> (r: Result<FormatStatus>) 
    requires *args == the_args(),
{
    let mut status = FormatStatus::Unchanged;
    let entries = walk_new(directory)
        .filter_entry(|e: &DirEntry| -> (b: bool) ensures b == (e.depth_s() == 0 || !e.hidden_s()) { !is_hidden(e) });
    let mut vp_it = entries.iter();
    loop invariant vp_it.obeys_prophetic_iter_laws(), vp_it.decrease() is Some, *args == the_args(),
 decreases vp_it.decrease().unwrap(), 
 { match vp_it.next() { None => break, Some(entry) => {
        if !(entry.is_typ_file()) {
            continue;
        }
        let Ok(content) = read_to_string(entry.path()) else {
            continue;
        };
        let cfg = args.style.to_config();
        let Ok(res) = format_content(cfg, &content) else {
            continue;
        };
        if str_eq(&res, &content) {
            continue;
        }
        status = FormatStatus::Changed;
        if args.check {
        } else {
            match write_back(entry.path(), &res) {
                Ok(_) => {},
                Err(e) => {}
            }
        }
    }}}
    Ok(status)
}

} // verus!
fn main() {}
