#[path = "/repo/crates/typstyle-core/src/utils.rs"]
#[allow(dead_code)]
mod utils;

#[cfg(kani)]
mod h {
    use super::utils::*;

    fn any_str<const N: usize>(buf: &mut [u8; N]) -> &str {
        let len: usize = kani::any();
        kani::assume(len <= N);
        for i in 0..N { buf[i] = kani::any(); }
        let s = std::str::from_utf8(&buf[..len]);
        kani::assume(s.is_ok());
        s.unwrap()
    }

    #[kani::proof]
    #[kani::unwind(6)]
    fn trim_range_total() {
        let mut buf = [0u8; 4];
        let s = any_str(&mut buf);
        let a: usize = kani::any();
        let b: usize = kani::any();
        kani::assume(a <= b && b <= s.len() && s.is_char_boundary(a) && s.is_char_boundary(b));
        let r = trim_range(s, a..b);
        assert!(a <= r.start && r.start <= r.end && r.end <= b);
    }
}
