// ---- prelude/chainspec.rs : ghost view of ChainStylist (layout/chain.rs) ----
pub ghost enum ChainItemV { Body(DocV), Op(DocV), Comment(DocV), Attached(DocV), Linebreak }
pub open spec fn ci_doc(it: ChainItemV) -> DocV {
    match it { ChainItemV::Body(d) => d, ChainItemV::Op(d) => d, ChainItemV::Comment(d) => d, ChainItemV::Attached(d) => d, ChainItemV::Linebreak => DocV::Nil }
}
pub open spec fn ci_is_comment(it: ChainItemV) -> bool { it is Comment || it is Attached }
/// documents are well nested and comment-safe; bodies and operators never end inside a line comment
pub open spec fn ci_ok(it: ChainItemV, unit: int) -> bool {
    nest_ok(ci_doc(it), unit) && t_safe(ci_doc(it)) && (!ci_is_comment(it) ==> !t_may_open(ci_doc(it)))
}
/// C04/C06 for chains: every comment that may be a line comment is immediately followed by a line break item
pub open spec fn chain_wf(items: Seq<ChainItemV>, unit: int) -> bool {
    &&& forall|i: int| 0 <= i < items.len() ==> ci_ok(#[trigger] items[i], unit)
    &&& forall|i: int| 0 <= i < items.len() && t_may_open(ci_doc(#[trigger] items[i])) ==> i + 1 < items.len() && items[i + 1] is Linebreak
}
/// C05: `print_doc` removes the first accumulated document
pub open spec fn chain_first_ok(items: Seq<ChainItemV>) -> bool {
    items.len() > 0 && (items[0] is Body || items[0] is Comment || items[0] is Op)
}
