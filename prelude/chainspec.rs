// ---- prelude/chainspec.rs : ghost view of ChainStylist (layout/chain.rs) ----
pub ghost enum ChainItemV { Body(DocV), Op(DocV), Comment(DocV), Attached(DocV), Linebreak }
pub open spec fn ci_doc(it: ChainItemV) -> DocV {
    match it { ChainItemV::Body(d) => d, ChainItemV::Op(d) => d, ChainItemV::Comment(d) => d, ChainItemV::Attached(d) => d, ChainItemV::Linebreak => DocV::Nil }
}
pub open spec fn ci_is_comment(it: ChainItemV) -> bool { it is Comment || it is Attached }
/// documents are well nested and comment-safe; bodies and operators never end inside a line comment
pub open spec fn ci_ok(it: ChainItemV, unit: int) -> bool {
    nest_ok(ci_doc(it), unit) && t_safe(ci_doc(it)) && (!ci_is_comment(it) ==> !t_may_open(ci_doc(it)))
}
/// C04/C06 for chains: every comment that may be a line comment is immediately followed by a line break item
pub open spec fn chain_wf(items: Seq<ChainItemV>, unit: int) -> bool {
    &&& forall|i: int| 0 <= i < items.len() ==> ci_ok(#[trigger] items[i], unit)
    &&& forall|i: int| 0 <= i < items.len() && t_may_open(ci_doc(#[trigger] items[i])) ==> i + 1 < items.len() && items[i + 1] is Linebreak
}
/// C05: `print_doc` removes the first accumulated document
pub open spec fn chain_first_ok(items: Seq<ChainItemV>) -> bool {
    items.len() > 0 && (items[0] is Body || items[0] is Comment || items[0] is Op)
}

/// the invariant of `ChainStylist::process`: like chain_wf, except that the LAST item may still wait for its line break
pub open spec fn chain_partial(items: Seq<ChainItemV>, unit: int) -> bool {
    &&& forall|i: int| 0 <= i < items.len() ==> ci_ok(#[trigger] items[i], unit)
    &&& forall|i: int| 0 <= i < items.len() - 1 && t_may_open(ci_doc(#[trigger] items[i])) ==> items[i + 1] is Linebreak
}
pub open spec fn chain_pending(items: Seq<ChainItemV>) -> bool { items.len() > 0 && t_may_open(ci_doc(items.last())) }
pub proof fn lemma_chain_push(a: Seq<ChainItemV>, b: Seq<ChainItemV>, it: ChainItemV, unit: int)
    requires b =~= a.push(it), chain_partial(a, unit), ci_ok(it, unit), chain_pending(a) ==> it is Linebreak,
    ensures chain_partial(b, unit), chain_pending(b) == t_may_open(ci_doc(it)), a.len() > 0 ==> b[0] == a[0], b.len() == a.len() + 1,
{
    assert forall|i: int| 0 <= i < b.len() implies ci_ok(#[trigger] b[i], unit) by { if i < a.len() { assert(b[i] == a[i]); } }
    assert forall|i: int| 0 <= i < b.len() - 1 && t_may_open(ci_doc(#[trigger] b[i])) implies b[i + 1] is Linebreak by {
        assert(b[i] == a[i]);
        if i < a.len() - 1 { assert(b[i + 1] == a[i + 1]); } else { assert(chain_pending(a)); }
    }
}
pub proof fn lemma_chain_append_body(a: Seq<ChainItemV>, b: Seq<ChainItemV>, x: DocV, unit: int)
    requires a.len() > 0, a.last() is Body, b =~= a.update(a.len() - 1, ChainItemV::Body(cat(ci_doc(a.last()), x))), chain_partial(a, unit), doc_closed(x, unit),
    ensures chain_partial(b, unit), !chain_pending(b), b.len() == a.len(), a.len() > 1 ==> b[0] == a[0], b[0] is Body || b[0] == a[0],
{
    reveal_with_fuel(tr, 3); reveal_with_fuel(nest_ok, 3);
    assert(ci_ok(a.last(), unit));
    assert forall|i: int| 0 <= i < b.len() implies ci_ok(#[trigger] b[i], unit) by { if i < a.len() - 1 { assert(b[i] == a[i]); } }
    assert forall|i: int| 0 <= i < b.len() - 1 && t_may_open(ci_doc(#[trigger] b[i])) implies b[i + 1] is Linebreak by {
        assert(b[i] == a[i]);
        if i < a.len() - 2 { assert(b[i + 1] == a[i + 1]); }
    }
}
