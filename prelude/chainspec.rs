// ---- prelude/chainspec.rs : ghost view of ChainStylist (layout/chain.rs) ----
pub ghost enum ChainItemV { Body(DocV), Op(DocV), Comment(DocV), Attached(DocV), Linebreak }
pub open spec fn ci_doc(it: ChainItemV) -> DocV {
    match it { ChainItemV::Body(d) => d, ChainItemV::Op(d) => d, ChainItemV::Comment(d) => d, ChainItemV::Attached(d) => d, ChainItemV::Linebreak => DocV::Nil }
}
pub open spec fn ci_is_comment(it: ChainItemV) -> bool { it is Comment || it is Attached }
/// documents are well nested and comment-safe; bodies and operators never end inside a line comment
pub open spec fn ci_ok(it: ChainItemV, unit: int) -> bool {
    nest_ok(ci_doc(it), unit) && t_safe(ci_doc(it)) && (!ci_is_comment(it) ==> !t_may_open(ci_doc(it)))
}
/// C04/C06 for chains: every comment that may be a line comment is immediately followed by a line break item
pub open spec fn chain_wf(items: Seq<ChainItemV>, unit: int) -> bool {
    &&& forall|i: int| 0 <= i < items.len() ==> ci_ok(#[trigger] items[i], unit)
    &&& forall|i: int| 0 <= i < items.len() && t_may_open(ci_doc(#[trigger] items[i])) ==> i + 1 < items.len() && items[i + 1] is Linebreak
}
/// C05: `print_doc` removes the first accumulated document
pub open spec fn chain_first_ok(items: Seq<ChainItemV>) -> bool {
    items.len() > 0 && (items[0] is Body || items[0] is Comment || items[0] is Op)
}

/// the invariant of `ChainStylist::process`: like chain_wf, except that the LAST item may still wait for its line break
pub open spec fn chain_partial(items: Seq<ChainItemV>, unit: int) -> bool {
    &&& forall|i: int| 0 <= i < items.len() ==> ci_ok(#[trigger] items[i], unit)
    &&& forall|i: int| 0 <= i < items.len() - 1 && t_may_open(ci_doc(#[trigger] items[i])) ==> items[i + 1] is Linebreak
}
pub open spec fn chain_pending(items: Seq<ChainItemV>) -> bool { items.len() > 0 && t_may_open(ci_doc(items.last())) }
pub proof fn lemma_chain_push(a: Seq<ChainItemV>, b: Seq<ChainItemV>, it: ChainItemV, unit: int)
    requires b =~= a.push(it), chain_partial(a, unit), ci_ok(it, unit), chain_pending(a) ==> it is Linebreak,
    ensures chain_partial(b, unit), chain_pending(b) == t_may_open(ci_doc(it)), a.len() > 0 ==> b[0] == a[0], b.len() == a.len() + 1,
{
    assert forall|i: int| 0 <= i < b.len() implies ci_ok(#[trigger] b[i], unit) by { if i < a.len() { assert(b[i] == a[i]); } }
    assert forall|i: int| 0 <= i < b.len() - 1 && t_may_open(ci_doc(#[trigger] b[i])) implies b[i + 1] is Linebreak by {
        assert(b[i] == a[i]);
        if i < a.len() - 1 { assert(b[i + 1] == a[i + 1]); } else { assert(chain_pending(a)); }
    }
}
pub proof fn lemma_chain_append_body(a: Seq<ChainItemV>, b: Seq<ChainItemV>, x: DocV, unit: int)
    requires a.len() > 0, a.last() is Body, b =~= a.update(a.len() - 1, ChainItemV::Body(cat(ci_doc(a.last()), x))), chain_partial(a, unit), doc_closed(x, unit),
    ensures chain_partial(b, unit), !chain_pending(b), b.len() == a.len(), a.len() > 1 ==> b[0] == a[0], b[0] is Body || b[0] == a[0],
{
    reveal_with_fuel(tr, 3); reveal_with_fuel(nest_ok, 3);
    assert(ci_ok(a.last(), unit));
    assert forall|i: int| 0 <= i < b.len() implies ci_ok(#[trigger] b[i], unit) by { if i < a.len() - 1 { assert(b[i] == a[i]); } }
    assert forall|i: int| 0 <= i < b.len() - 1 && t_may_open(ci_doc(#[trigger] b[i])) implies b[i + 1] is Linebreak by {
        assert(b[i] == a[i]);
        if i < a.len() - 2 { assert(b[i + 1] == a[i + 1]); }
    }
}

// ---- W for chains (C01 / C06): the items carry the words; print_doc emits them in order ----
pub open spec fn chain_w(s: Seq<ChainItemV>) -> Seq<Seq<char>> decreases s.len() {
    if s.len() == 0 { Seq::empty() } else { chain_w(s.drop_last()) + wd(ci_doc(s.last())) }
}
#[verifier::opaque]
pub open spec fn chain_wst(s: Seq<ChainItemV>) -> bool { forall|i: int| 0 <= i < s.len() ==> wst(ci_doc(#[trigger] s[i])) }
pub proof fn lemma_chain_wst_at(s: Seq<ChainItemV>, i: int)
    requires chain_wst(s), 0 <= i < s.len(),
    ensures wst(ci_doc(s[i])),
{ reveal(chain_wst); }
pub proof fn lemma_chain_w_push(s: Seq<ChainItemV>, it: ChainItemV)
    ensures chain_w(s.push(it)) == chain_w(s) + wd(ci_doc(it)), chain_wst(s.push(it)) == (chain_wst(s) && wst(ci_doc(it))),
{
    reveal_with_fuel(chain_w, 2); reveal(chain_wst);
    let t = s.push(it);
    assert(t.drop_last() =~= s);
    if chain_wst(t) { assert forall|i: int| 0 <= i < s.len() implies wst(ci_doc(#[trigger] s[i])) by { assert(t[i] == s[i]); } assert(t[s.len() as int] == it); }
    if chain_wst(s) && wst(ci_doc(it)) { assert forall|i: int| 0 <= i < t.len() implies wst(ci_doc(#[trigger] t[i])) by { if i < s.len() { assert(t[i] == s[i]); } } }
}
pub proof fn lemma_chain_w_step(s: Seq<ChainItemV>, k: int)
    requires 0 <= k < s.len(),
    ensures chain_w(s.subrange(0, k + 1)) == chain_w(s.subrange(0, k)) + wd(ci_doc(s[k])),
{
    assert(s.subrange(0, k + 1) =~= s.subrange(0, k).push(s[k]));
    lemma_chain_w_push(s.subrange(0, k), s[k]);
}
/// the last body gets a document appended (fallback of `process`)
pub proof fn lemma_chain_w_append_body(a: Seq<ChainItemV>, x: DocV)
    requires a.len() > 0, a.last() is Body,
    ensures chain_w(a.update(a.len() - 1, ChainItemV::Body(cat(ci_doc(a.last()), x)))) =~= chain_w(a) + wd(x),
        chain_wst(a) && wst(x) ==> chain_wst(a.update(a.len() - 1, ChainItemV::Body(cat(ci_doc(a.last()), x)))),
{
    reveal_with_fuel(chain_w, 2); reveal(chain_wst); reveal_with_fuel(words, 2); reveal_with_fuel(alt_ok, 2);
    let b = a.update(a.len() - 1, ChainItemV::Body(cat(ci_doc(a.last()), x)));
    assert(b.drop_last() =~= a.drop_last());
    if chain_wst(a) && wst(x) { assert forall|i: int| 0 <= i < b.len() implies wst(ci_doc(#[trigger] b[i])) by { if i < a.len() - 1 { assert(b[i] == a[i]); } else { assert(wst(ci_doc(a[a.len() - 1]))); } } }
}
