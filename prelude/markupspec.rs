// ---- prelude/markupspec.rs : C08 -- what the markup engine must re-emit, stated over the children of a Markup node ----
/// one entry of the flattened line representation: a child that is re-emitted, or a run of `n` mandatory line breaks
pub ghost enum MTok<'a> { Node(&'a SyntaxNode), Brk(nat) }
pub open spec fn is_ws_kind(k: SyntaxKind) -> bool { k == SyntaxKind::Space || k == SyntaxKind::Parbreak }
/// a child that ends a source line: a paragraph break, or whitespace holding a line break
pub open spec fn is_break_child(n: &SyntaxNode) -> bool { n.kind_s() == SyntaxKind::Parbreak || is_nl_space(n) }
/// the number of line feeds a break child stands for: all of them for a paragraph break, exactly one for a line break
pub open spec fn brk_count(n: &SyntaxNode) -> nat { if n.kind_s() == SyntaxKind::Parbreak { count_newlines_s(n.text_s()) } else { 1 } }
pub open spec fn brk_toks<'a>(n: nat) -> Seq<MTok<'a>> { if n > 0 { seq![MTok::Brk(n)] } else { Seq::empty() } }
pub open spec fn child_toks<'a>(n: &'a SyntaxNode) -> Seq<MTok<'a>> { if is_break_child(n) { brk_toks(brk_count(n)) } else { seq![MTok::Node(n)] } }
pub open spec fn toks_of<'a>(s: Seq<&'a SyntaxNode>) -> Seq<MTok<'a>> decreases s.len() {
    if s.len() == 0 { Seq::empty() } else { toks_of(s.drop_last()) + child_toks(s.last()) }
}
pub open spec fn node_toks<'a>(s: Seq<&'a SyntaxNode>) -> Seq<MTok<'a>> { s.map_values(|n: &'a SyntaxNode| MTok::Node(n)) }
/// whitespace at the outer edges of a piece of markup is the only thing the engine may change (C08): one leading blank ...
pub open spec fn markup_lead(ch: Seq<&SyntaxNode>) -> int { if ch.len() > 0 && ch[0].kind_s() == SyntaxKind::Space { 1 } else { 0 } }
/// ... and one trailing whitespace child
pub open spec fn markup_trail(ch: Seq<&SyntaxNode>) -> int { if ch.len() > markup_lead(ch) && is_ws_kind(ch.last().kind_s()) { 1 } else { 0 } }
pub open spec fn markup_mid<'a>(ch: Seq<&'a SyntaxNode>) -> Seq<&'a SyntaxNode> { ch.subrange(markup_lead(ch), ch.len() - markup_trail(ch)) }
/// of a trailing break only its last line feed belongs to the edge: the others are re-emitted
pub open spec fn markup_tail<'a>(ch: Seq<&'a SyntaxNode>) -> Seq<MTok<'a>> {
    if markup_trail(ch) == 1 && is_break_child(ch.last()) && brk_count(ch.last()) > 1 { seq![MTok::Brk((brk_count(ch.last()) - 1) as nat)] } else { Seq::empty() }
}
/// C08: the children of a Markup node as the engine must re-emit them, in order, nothing added, dropped or converted
pub open spec fn markup_flat<'a>(ch: Seq<&'a SyntaxNode>) -> Seq<MTok<'a>> { toks_of(markup_mid(ch)) + markup_tail(ch) }

/// PF6: the lexer emits a maximal run of whitespace as ONE token (Space or Parbreak), so two whitespace tokens are never
/// adjacent siblings; a Parbreak holds at least two line breaks
#[verifier::opaque]
pub open spec fn ws_not_adjacent(ch: Seq<&SyntaxNode>) -> bool {
    forall|i: int, j: int| 0 <= i && j == i + 1 && j < ch.len() && is_ws_kind((#[trigger] ch[i]).kind_s()) ==> !is_ws_kind((#[trigger] ch[j]).kind_s())
}
#[verifier::external_body]
pub proof fn pf_markup_ws(n: &SyntaxNode)
    requires tree_wf(n),
    ensures
        ws_not_adjacent(n.children_s()),   // (opaque: used through lemma_ws_adj)
        forall|j: int| 0 <= j < n.children_s().len() && (#[trigger] n.children_s()[j]).kind_s() == SyntaxKind::Parbreak ==> count_newlines_s(n.children_s()[j].text_s()) >= 2,
{}
/// PF7: trailing trivia is never part of a nested piece of markup (the body of a content block, strong/emph, heading or list
/// item): only the document itself can end with a line comment
#[verifier::external_body]
pub proof fn pf_nested_markup(m: &SyntaxNode)
    requires tree_wf(m), m.kind_s() == SyntaxKind::Markup, !is_doc_root(m),
    ensures !last_is_lc(m.children_s()),
{}

pub proof fn lemma_toks_of_push<'a>(s: Seq<&'a SyntaxNode>, n: &'a SyntaxNode)
    ensures toks_of(s.push(n)) == toks_of(s) + child_toks(n),
{
    reveal_with_fuel(toks_of, 2);
    assert(s.push(n).drop_last() =~= s);
}
pub proof fn lemma_toks_of_nodes<'a>(s: Seq<&'a SyntaxNode>)
    requires forall|k: int| 0 <= k < s.len() ==> !is_break_child(#[trigger] s[k]),
    ensures toks_of(s) =~= node_toks(s),
    decreases s.len(),
{
    reveal_with_fuel(toks_of, 2);
    if s.len() > 0 {
        assert forall|k: int| 0 <= k < s.drop_last().len() implies !is_break_child(#[trigger] s.drop_last()[k]) by { assert(s.drop_last()[k] == s[k]); }
        lemma_toks_of_nodes(s.drop_last());
    }
}
pub proof fn lemma_toks_of_concat<'a>(a: Seq<&'a SyntaxNode>, b: Seq<&'a SyntaxNode>)
    ensures toks_of(a + b) =~= toks_of(a) + toks_of(b),
    decreases b.len(),
{
    reveal_with_fuel(toks_of, 2);
    if b.len() == 0 { assert(a + b =~= a); }
    else {
        assert((a + b).drop_last() =~= a + b.drop_last());
        assert((a + b).last() == b.last());
        lemma_toks_of_concat(a, b.drop_last());
    }
}
pub open spec fn is_block_elem_kind(k: SyntaxKind) -> bool { k == SyntaxKind::ListItem || k == SyntaxKind::EnumItem || k == SyntaxKind::TermItem }
/// a line that holds prose (text, strong, emph, raw) is a "mixed" line: embedded code on it is converted with breaks suppressed
pub open spec fn is_prose_kind(k: SyntaxKind) -> bool { k == SyntaxKind::Text || k == SyntaxKind::Strong || k == SyntaxKind::Emph || k == SyntaxKind::Raw }
#[verifier::opaque]
pub open spec fn has_text_node(s: Seq<&SyntaxNode>) -> bool { exists|j: int| 0 <= j < s.len() && is_prose_kind((#[trigger] s[j]).kind_s()) }
pub proof fn lemma_subrange_push<'a>(ch: Seq<&'a SyntaxNode>, a: int, b: int)
    requires 0 <= a <= b < ch.len(),
    ensures ch.subrange(a, b).push(ch[b]) =~= ch.subrange(a, b + 1),
{}
/// extending a run of children by one child
pub proof fn lemma_toks_of_extend<'a>(ch: Seq<&'a SyntaxNode>, a: int, b: int)
    requires 0 <= a <= b < ch.len(),
    ensures toks_of(ch.subrange(a, b + 1)) == toks_of(ch.subrange(a, b)) + child_toks(ch[b]),
{
    lemma_subrange_push(ch, a, b);
    lemma_toks_of_push(ch.subrange(a, b), ch[b]);
}
/// splitting a run of children
pub proof fn lemma_toks_of_split<'a>(ch: Seq<&'a SyntaxNode>, a: int, m: int, b: int)
    requires 0 <= a <= m <= b <= ch.len(),
    ensures toks_of(ch.subrange(a, b)) =~= toks_of(ch.subrange(a, m)) + toks_of(ch.subrange(m, b)),
{
    assert(ch.subrange(a, b) =~= ch.subrange(a, m) + ch.subrange(m, b));
    lemma_toks_of_concat(ch.subrange(a, m), ch.subrange(m, b));
}
/// a run without break children is re-emitted node by node
pub proof fn lemma_toks_of_run<'a>(ch: Seq<&'a SyntaxNode>, a: int, b: int)
    requires 0 <= a <= b <= ch.len(), forall|j: int| a <= j < b ==> !is_break_child(#[trigger] ch[j]),
    ensures toks_of(ch.subrange(a, b)) =~= node_toks(ch.subrange(a, b)),
{
    let s = ch.subrange(a, b);
    assert forall|k: int| 0 <= k < s.len() implies !is_break_child(#[trigger] s[k]) by { assert(s[k] == ch[a + k]); }
    lemma_toks_of_nodes(s);
}

// ---- index view of the flattened representation (every child stands for exactly one entry) ----
pub open spec fn tok1<'a>(n: &'a SyntaxNode) -> MTok<'a> { if is_break_child(n) { MTok::Brk(brk_count(n)) } else { MTok::Node(n) } }
pub open spec fn breaks_counted(ch: Seq<&SyntaxNode>) -> bool {
    forall|j: int| 0 <= j < ch.len() && (#[trigger] ch[j]).kind_s() == SyntaxKind::Parbreak ==> count_newlines_s(ch[j].text_s()) >= 2
}
pub proof fn lemma_toks_of_index<'a>(s: Seq<&'a SyntaxNode>)
    requires breaks_counted(s),
    ensures toks_of(s).len() == s.len(), forall|g: int| 0 <= g < s.len() ==> #[trigger] toks_of(s)[g] == tok1(s[g]),
    decreases s.len(),
{
    reveal_with_fuel(toks_of, 2);
    if s.len() > 0 {
        let p = s.drop_last();
        assert forall|j: int| 0 <= j < p.len() && (#[trigger] p[j]).kind_s() == SyntaxKind::Parbreak implies count_newlines_s(p[j].text_s()) >= 2 by { assert(p[j] == s[j]); }
        lemma_toks_of_index(p);
        assert(child_toks(s.last()) =~= seq![tok1(s.last())]);
        assert forall|g: int| 0 <= g < s.len() implies #[trigger] toks_of(s)[g] == tok1(s[g]) by { if g < p.len() { assert(p[g] == s[g]); } }
    }
}
/// the flattened representation, entry by entry: the children between the edges, then (possibly) what is left of a trailing break
pub proof fn lemma_flat_index<'a>(ch: Seq<&'a SyntaxNode>)
    requires breaks_counted(ch),
    ensures
        markup_flat(ch).len() == markup_mid(ch).len() + markup_tail(ch).len(),
        markup_tail(ch).len() <= 1,
        forall|g: int| 0 <= g < markup_mid(ch).len() ==> #[trigger] markup_flat(ch)[g] == tok1(ch[markup_lead(ch) + g]),
        forall|g: int| markup_mid(ch).len() <= g < markup_flat(ch).len() ==> (#[trigger] markup_flat(ch)[g]) is Brk,
{
    let mid = markup_mid(ch);
    assert forall|j: int| 0 <= j < mid.len() && (#[trigger] mid[j]).kind_s() == SyntaxKind::Parbreak implies count_newlines_s(mid[j].text_s()) >= 2 by { assert(mid[j] == ch[markup_lead(ch) + j]); }
    lemma_toks_of_index(mid);
    assert forall|g: int| 0 <= g < mid.len() implies #[trigger] markup_flat(ch)[g] == tok1(ch[markup_lead(ch) + g]) by { assert(markup_flat(ch)[g] == toks_of(mid)[g]); assert(mid[g] == ch[markup_lead(ch) + g]); }
}
/// a re-emitted node is a child of the markup (and not one of its line-ending children)
pub proof fn lemma_flat_node<'a>(ch: Seq<&'a SyntaxNode>, g: int)
    requires breaks_counted(ch), 0 <= g < markup_flat(ch).len(), markup_flat(ch)[g] is Node,
    ensures
        g < markup_mid(ch).len(), 0 <= markup_lead(ch) + g < ch.len(),
        markup_flat(ch)[g] == MTok::Node(ch[markup_lead(ch) + g]), !is_break_child(ch[markup_lead(ch) + g]),
{
    lemma_flat_index(ch);
}
/// what follows a line comment: a run of line breaks, or the edge (where a trailing break child, if any, was taken off)
pub proof fn lemma_flat_after_lc<'a>(ch: Seq<&'a SyntaxNode>, g: int)
    requires
        breaks_counted(ch), lc_followed_markup(ch),
        0 <= g < markup_flat(ch).len(), markup_flat(ch)[g] is Node, markup_flat(ch)[g]->Node_0.kind_s() == SyntaxKind::LineComment,
    ensures
        g + 1 < markup_flat(ch).len() ==> markup_flat(ch)[g + 1] is Brk,
        g + 1 == markup_flat(ch).len() ==> last_is_lc(ch) || (markup_trail(ch) == 1 && is_break_child(ch.last())),
{
    lemma_flat_index(ch);
    let lead = markup_lead(ch);
    let j = lead + g;
    assert(g < markup_mid(ch).len());
    assert(markup_flat(ch)[g] == tok1(ch[j]));
    assert(ch[j].kind_s() == SyntaxKind::LineComment);
    if j + 1 < ch.len() {
        assert(is_nl_space_or_parbreak(ch[j + 1]));
        assert(is_break_child(ch[j + 1]));
        if g + 1 < markup_mid(ch).len() {
            assert(markup_flat(ch)[g + 1] == tok1(ch[lead + (g + 1)]));
        } else {
            assert(markup_trail(ch) == 1 && j + 1 == ch.len() - 1);
        }
    } else {
        assert(ch.last() == ch[j]);
    }
}

/// C08: what the markup engine must emit for one entry of the flattened representation
pub open spec fn markup_piece_ok(store: AttrStore, t: MTok, d: DocV) -> bool {
    match t {
        MTok::Brk(n) => d == repeat_doc(DocV::Hardline, n),
        MTok::Node(c) => {
            &&& (c.kind_s() == SyntaxKind::Space ==> d == sp())
            &&& (c.kind_s() == SyntaxKind::Text ==> d == txt(c.full_text_s()))
            &&& (c.kind_s() == SyntaxKind::LineComment ==> d == txt(c.text_s()))
            &&& (!ast::expr_kind(c.kind_s()) && !is_comment_kind(c.kind_s()) && c.kind_s() != SyntaxKind::Space ==> d == txt(c.text_s()))
            &&& (is_exact_leaf_kind(c.kind_s()) && !store.disabled_s(c.span_s()) ==> d == txt(c.text_s()))
            &&& (store.disabled_s(c.span_s()) && ast::expr_kind(c.kind_s()) && c.kind_s() != SyntaxKind::Text ==> d == txt(c.full_text_s()))
        },
    }
}
/// the only things the engine may put at the outer edges of a piece of markup
pub open spec fn edge_doc(d: DocV) -> bool { d == DocV::Nil || d == DocV::Hardline || d == DocV::LineSoft || d == DocV::Line || d == sp() }
pub open spec fn is_single_space(ch: Seq<&SyntaxNode>) -> bool { ch.len() == 1 && ch[0].kind_s() == SyntaxKind::Space }
/// a child at the edge of a piece of markup next to which no blank may be invented: not whitespace, not a comment, not a block element
pub open spec fn plain_edge_kind(k: SyntaxKind) -> bool { !is_ws_kind(k) && !is_comment_kind(k) && !is_block_elem_kind(k) }
pub proof fn lemma_ws_adj(ch: Seq<&SyntaxNode>, i: int)
    requires ws_not_adjacent(ch), 0 <= i, i + 1 < ch.len(), is_ws_kind(ch[i].kind_s()),
    ensures !is_ws_kind(ch[i + 1].kind_s()),
{ reveal(ws_not_adjacent); }
pub proof fn lemma_htn_empty(s: Seq<&SyntaxNode>)
    requires s.len() == 0,
    ensures !has_text_node(s),
{ reveal(has_text_node); }
pub proof fn lemma_htn_push(s: Seq<&SyntaxNode>, n: &SyntaxNode)
    ensures has_text_node(s.push(n)) == (has_text_node(s) || is_prose_kind(n.kind_s())),
{
    reveal(has_text_node);
    let s1 = s.push(n);
    if has_text_node(s) { let j = choose|j: int| 0 <= j < s.len() && is_prose_kind((#[trigger] s[j]).kind_s()); assert(s1[j] == s[j]); }
    if is_prose_kind(n.kind_s()) { assert(s1[s1.len() - 1] == n); }
    if has_text_node(s1) { let j = choose|j: int| 0 <= j < s1.len() && is_prose_kind((#[trigger] s1[j]).kind_s()); if j < s.len() { assert(s1[j] == s[j]); } }
}
/// dropping trailing blanks does not change whether a line holds prose
pub proof fn lemma_htn_trim(s: Seq<&SyntaxNode>, m: int)
    requires 0 <= m <= s.len(), forall|j: int| m <= j < s.len() ==> (#[trigger] s[j]).kind_s() == SyntaxKind::Space,
    ensures has_text_node(s.subrange(0, m)) == has_text_node(s),
{
    reveal(has_text_node);
    let t = s.subrange(0, m);
    if has_text_node(t) { let j = choose|j: int| 0 <= j < t.len() && is_prose_kind((#[trigger] t[j]).kind_s()); assert(s[j] == t[j]); }
    if has_text_node(s) { let j = choose|j: int| 0 <= j < s.len() && is_prose_kind((#[trigger] s[j]).kind_s()); if j < m { assert(s[j] == t[j]); } }
}
