// ---- prelude/docv.rs : ghost view of `pretty` documents and the abstract interpretations over it -------------
pub ghost enum DocV {
    Nil,
    Text(Seq<char>),
    Hardline,
    Line,       // space when flat, newline when broken
    LineSoft,   // nothing when flat, newline when broken
    Cat(Box<DocV>, Box<DocV>),
    Nest(int, Box<DocV>),
    Group(Box<DocV>),
    FlatAlt(Box<DocV>, Box<DocV>),   // (when broken, when flat)
    Align(Box<DocV>),
}

pub open spec fn cat(a: DocV, b: DocV) -> DocV { DocV::Cat(Box::new(a), Box::new(b)) }
pub open spec fn cat3(a: DocV, b: DocV, c: DocV) -> DocV { cat(cat(a, b), c) }
pub open spec fn txt(s: Seq<char>) -> DocV { DocV::Text(s) }
pub open spec fn sp() -> DocV { DocV::Text(seq![' ']) }
pub open spec fn nest(n: int, d: DocV) -> DocV { DocV::Nest(n, Box::new(d)) }
pub open spec fn group(d: DocV) -> DocV { DocV::Group(Box::new(d)) }
pub open spec fn flat_alt(brk: DocV, flat: DocV) -> DocV { DocV::FlatAlt(Box::new(brk), Box::new(flat)) }
pub open spec fn align(d: DocV) -> DocV { DocV::Align(Box::new(d)) }
/// left fold with Cat, starting from Nil (what `concat` and `repeat_n` build)
pub open spec fn cat_all(s: Seq<DocV>) -> DocV decreases s.len() {
    if s.len() == 0 { DocV::Nil } else { cat(cat_all(s.drop_last()), s.last()) }
}
pub open spec fn repeat_doc(d: DocV, n: nat) -> DocV decreases n {
    if n == 0 { DocV::Nil } else { cat(repeat_doc(d, (n - 1) as nat), d) }
}
/// `intersperse(docs, sep)`: d0 sep d1 sep ... dn  (Nil for no docs)
pub open spec fn intersperse_doc(s: Seq<DocV>, sep: DocV) -> DocV decreases s.len() {
    if s.len() == 0 { DocV::Nil }
    else if s.len() == 1 { cat(DocV::Nil, s[0]) }
    else { cat(cat(intersperse_doc(s.drop_last(), sep), sep), s.last()) }
}

// ===== T : line-comment transformer (C04 / C06: nothing is ever swallowed by a `//` comment) =====
// states: closed (c), open = inside a line comment (o), bad (b). A doc in a layout mode is a relation on states.
pub struct Tr { pub c2c: bool, pub c2o: bool, pub c2b: bool, pub o2c: bool, pub o2o: bool, pub o2b: bool }

pub open spec fn tr_id() -> Tr { Tr { c2c: true, c2o: false, c2b: false, o2c: false, o2o: true, o2b: false } }
pub open spec fn tr_nl() -> Tr { Tr { c2c: true, c2o: false, c2b: false, o2c: true, o2o: false, o2b: false } }
pub open spec fn tr_word() -> Tr { Tr { c2c: true, c2o: false, c2b: false, o2c: false, o2o: false, o2b: true } }
pub open spec fn tr_lc() -> Tr { Tr { c2c: false, c2o: true, c2b: false, o2c: false, o2o: false, o2b: true } }
pub open spec fn tr_seq(a: Tr, b: Tr) -> Tr {
    Tr {
        c2c: (a.c2c && b.c2c) || (a.c2o && b.o2c),
        c2o: (a.c2c && b.c2o) || (a.c2o && b.o2o),
        c2b: a.c2b || (a.c2c && b.c2b) || (a.c2o && b.o2b),
        o2c: (a.o2c && b.c2c) || (a.o2o && b.o2c),
        o2o: (a.o2c && b.c2o) || (a.o2o && b.o2o),
        o2b: a.o2b || (a.o2c && b.c2b) || (a.o2o && b.o2b),
    }
}
pub open spec fn tr_join(a: Tr, b: Tr) -> Tr {
    Tr { c2c: a.c2c || b.c2c, c2o: a.c2o || b.c2o, c2b: a.c2b || b.c2b, o2c: a.o2c || b.o2c, o2o: a.o2o || b.o2o, o2b: a.o2b || b.o2b }
}
/// a text that starts a line comment
pub open spec fn is_lc(s: Seq<char>) -> bool { s.len() >= 2 && s[0] == '/' && s[1] == '/' }
pub open spec fn is_blank(s: Seq<char>) -> bool { forall|i: int| 0 <= i < s.len() ==> s[i] == ' ' }

/// `flat`: the innermost enclosing group is laid out flat.  In a broken context a nested Group may go either way (join).
pub open spec fn tr(d: DocV, flat: bool) -> Tr decreases d {
    match d {
        DocV::Nil => tr_id(),
        DocV::Text(s) => if is_blank(s) { tr_id() } else if is_lc(s) { tr_lc() } else { tr_word() },
        DocV::Hardline => tr_nl(),
        DocV::Line => if flat { tr_id() } else { tr_nl() },
        DocV::LineSoft => if flat { tr_id() } else { tr_nl() },
        DocV::Cat(a, b) => tr_seq(tr(*a, flat), tr(*b, flat)),
        DocV::Nest(_, a) => tr(*a, flat),
        // column alignment is only ever built around a block comment (comment.rs; enforced by N): one closed word,
        // whatever its lines look like (a continuation line may well begin with `//`)
        DocV::Align(a) => tr_word(),
        DocV::Group(a) => if flat { tr(*a, true) } else { tr_join(tr(*a, true), tr(*a, false)) },
        DocV::FlatAlt(a, b) => if flat { tr(*b, true) } else { tr(*a, false) },
    }
}
/// never reaches `bad` from closed, in any layout (may end inside a line comment)
pub open spec fn t_safe(d: DocV) -> bool { !tr(d, true).c2b && !tr(d, false).c2b }
/// may end inside a line comment in some layout
pub open spec fn t_may_open(d: DocV) -> bool { tr(d, true).c2o || tr(d, false).c2o }
/// from closed: never bad and never ends inside a line comment, in any layout
pub open spec fn t_closed(d: DocV) -> bool { t_safe(d) && !t_may_open(d) }
/// tolerates being placed right after an unterminated line comment (i.e. starts with a newline in every layout)
pub open spec fn t_ok_after_open(d: DocV) -> bool { !tr(d, true).o2b && !tr(d, false).o2b }
/// terminates an open line comment in every layout
pub open spec fn t_closes(d: DocV) -> bool { !tr(d, true).o2o && !tr(d, false).o2o && t_ok_after_open(d) }

// ===== N : nesting amounts (C12) =====
/// only Nil / Text / Hardline / Cat: what comment.rs puts below its `align()` / `hang(1)`
pub open spec fn plain_lines(d: DocV) -> bool decreases d {
    match d {
        DocV::Nil => true,
        DocV::Text(_) => true,
        DocV::Hardline => true,
        DocV::Cat(a, b) => plain_lines(*a) && plain_lines(*b),
        _ => false,
    }
}
/// every `Nest(k, _)` in `d` has k == unit; column alignment (`Align`) is allowed only for the continuation lines of a
/// comment, i.e. `Align(plain lines)` or `Align(Nest(1, plain lines))` (the property's stated exemption)
pub open spec fn nest_ok(d: DocV, unit: int) -> bool decreases d {
    match d {
        DocV::Cat(a, b) => nest_ok(*a, unit) && nest_ok(*b, unit),
        DocV::Nest(k, a) => k == unit && nest_ok(*a, unit),
        DocV::Group(a) => nest_ok(*a, unit),
        DocV::FlatAlt(a, b) => nest_ok(*a, unit) && nest_ok(*b, unit),
        DocV::Align(a) => plain_lines(*a) || (match *a { DocV::Nest(k, b) => k == 1 && plain_lines(*b), _ => false }),
        _ => true,
    }
}

// ===== W : significant words (C01 / C06 / C10) =====
pub open spec fn is_opt_punct(s: Seq<char>) -> bool {
    s =~= seq![','] || s =~= seq!['('] || s =~= seq![')'] || s =~= seq!['{'] || s =~= seq!['}'] || s =~= seq![';'] || s.len() == 0
}
/// the word contributed by one text atom (dict delimiter `(:` normalises to `:`)
pub open spec fn is_bc(s: Seq<char>) -> bool { s.len() >= 2 && s[0] == '/' && s[1] == '*' }
/// (a block comment counts as the one word `/*`: its lines are re-aligned, comment.rs carries the contract on its content)
pub open spec fn word_of(s: Seq<char>) -> Seq<Seq<char>> {
    if is_blank(s) || is_opt_punct(s) { Seq::empty() }
    else if s =~= seq!['(', ':'] { seq![seq![':']] }
    else if is_bc(s) { seq![seq!['/', '*']] }
    else { seq![s] }
}
pub open spec fn words(d: DocV, flat: bool) -> Seq<Seq<char>> decreases d {
    match d {
        DocV::Text(s) => word_of(s),
        DocV::Cat(a, b) => words(*a, flat) + words(*b, flat),
        DocV::Nest(_, a) => words(*a, flat),
        // column alignment is only ever built around a block comment (comment.rs; enforced by N)
        DocV::Align(a) => seq![seq!['/', '*']],
        DocV::Group(a) => words(*a, flat),
        DocV::FlatAlt(a, b) => if flat { words(*b, flat) } else { words(*a, flat) },
        _ => Seq::empty(),
    }
}
/// both branches of every FlatAlt carry the same words: `words` is then independent of the layout
pub open spec fn alt_ok(d: DocV) -> bool decreases d {
    match d {
        DocV::Cat(a, b) => alt_ok(*a) && alt_ok(*b),
        DocV::Nest(_, a) => alt_ok(*a),
        DocV::Align(a) => true,
        DocV::Group(a) => alt_ok(*a),
        DocV::FlatAlt(a, b) => alt_ok(*a) && alt_ok(*b) && words(*a, false) == words(*b, true)
            && words(*a, true) == words(*a, false) && words(*b, true) == words(*b, false),
        _ => true,
    }
}

/// W: the document carries exactly these words, in this order, whatever layout the renderer picks
pub open spec fn w_ok(d: DocV, ws: Seq<Seq<char>>) -> bool { alt_ok(d) && words(d, false) == ws && words(d, true) == ws }

// ===== S : a text that is present in every layout (C01: a separator that decides what the construct IS must not be lost) =====
/// in every layout the renderer can choose -- both branches of every `FlatAlt` -- the document contains the text `s`
pub open spec fn has_text(d: DocV, s: Seq<char>) -> bool decreases d {
    match d {
        DocV::Text(t) => t == s,
        DocV::Cat(a, b) => has_text(*a, s) || has_text(*b, s),
        DocV::Nest(_, x) => has_text(*x, s),
        DocV::Group(x) => has_text(*x, s),
        DocV::Align(x) => has_text(*x, s),
        DocV::FlatAlt(b, f) => has_text(*b, s) && has_text(*f, s),
        _ => false,
    }
}

// ===== P : piece sequences for break-suppressed engines (C08 / C09): flatten Cat / Nil only =====
pub open spec fn pieces(d: DocV) -> Seq<DocV> decreases d {
    match d {
        DocV::Nil => Seq::empty(),
        DocV::Cat(a, b) => pieces(*a) + pieces(*b),
        _ => seq![d],
    }
}

// ===== bundles used in converter contracts =====
/// what every converter guarantees about its result for C12 and C04/C06 (safety part)
pub open spec fn doc_ok(d: DocV, unit: int) -> bool { nest_ok(d, unit) && t_safe(d) }
/// ... and additionally never ends inside a line comment
pub open spec fn doc_closed(d: DocV, unit: int) -> bool { nest_ok(d, unit) && t_closed(d) }

pub proof fn lemma_repeat_doc_hardline(n: nat, unit: int)
    ensures doc_closed(repeat_doc(DocV::Hardline, n), unit), n > 0 ==> t_closes(repeat_doc(DocV::Hardline, n)),
        t_ok_after_open(repeat_doc(DocV::Hardline, n)) || n == 0,
        plain_lines(repeat_doc(DocV::Hardline, n)),
    decreases n,
{
    reveal_with_fuel(tr, 3); reveal_with_fuel(nest_ok, 3); reveal_with_fuel(plain_lines, 3);
    if n > 0 { lemma_repeat_doc_hardline((n - 1) as nat, unit); }
}

// ===== G : the optional-parenthesis guard (C01 / C04) =====
/// what `optional_paren` builds: a group that is the bare body when flat and `d0 NL body NL d1` (body nested) when broken
pub open spec fn optional_paren_doc(body: DocV, indent: int, d0: Seq<char>, d1: Seq<char>) -> DocV {
    group(cat(nest(indent, cat(flat_alt(cat(txt(d0), DocV::Hardline), DocV::Nil), body)), flat_alt(cat(DocV::Hardline, txt(d1)), DocV::Nil)))
}

/// W: optional delimiters that are optional punctuation add no word, in either layout
pub proof fn lemma_optional_paren_words(d: DocV, indent: int, d0: Seq<char>, d1: Seq<char>)
    requires word_of(d0).len() == 0, word_of(d1).len() == 0, alt_ok(d), words(d, true) == words(d, false),
    ensures
        alt_ok(optional_paren_doc(d, indent, d0, d1)),
        words(optional_paren_doc(d, indent, d0, d1), false) == words(d, false),
        words(optional_paren_doc(d, indent, d0, d1), true) == words(d, false),
{
    reveal_with_fuel(words, 8); reveal_with_fuel(alt_ok, 8);
    let e = Seq::<Seq<char>>::empty();
    let w = words(d, false);
    assert(word_of(d0) =~= e); assert(word_of(d1) =~= e);
    assert(e + e =~= e);
    assert((e + w) + e =~= w);
}
/// the same, for every body at once (for call sites that only know `exists|d| r == optional_paren_doc(d, ..)`)
pub proof fn lemma_optional_paren_words_all(indent: int, d0: Seq<char>, d1: Seq<char>)
    requires word_of(d0).len() == 0, word_of(d1).len() == 0,
    ensures forall|d: DocV, ws: Seq<Seq<char>>| w_ok(d, ws) ==> #[trigger] w_ok(optional_paren_doc(d, indent, d0, d1), ws),
{
    assert forall|d: DocV, ws: Seq<Seq<char>>| w_ok(d, ws) implies #[trigger] w_ok(optional_paren_doc(d, indent, d0, d1), ws) by {
        lemma_optional_paren_words(d, indent, d0, d1);
    }
}

// ===== sequences of documents (what `concat`, `Vec<ArenaDoc>` accumulators build) =====
pub open spec fn tr_docs(s: Seq<DocV>, flat: bool) -> Tr decreases s.len() {
    if s.len() == 0 { tr_id() } else { tr_seq(tr_docs(s.drop_last(), flat), tr(s.last(), flat)) }
}
pub open spec fn nest_ok_docs(s: Seq<DocV>, unit: int) -> bool { forall|i: int| 0 <= i < s.len() ==> nest_ok(#[trigger] s[i], unit) }

pub proof fn lemma_tr_seq_assoc(a: Tr, b: Tr, c: Tr)
    ensures tr_seq(tr_seq(a, b), c) == tr_seq(a, tr_seq(b, c)), tr_seq(tr_id(), a) == a, tr_seq(a, tr_id()) == a,
{}
/// a concatenation of closed documents is closed
pub proof fn lemma_cat_all_closed(s: Seq<DocV>, unit: int)
    requires forall|i: int| 0 <= i < s.len() ==> doc_closed(#[trigger] s[i], unit),
    ensures doc_closed(cat_all(s), unit),
    decreases s.len(),
{
    reveal_with_fuel(tr, 3); reveal_with_fuel(nest_ok, 3); reveal_with_fuel(cat_all, 2);
    if s.len() > 0 {
        assert forall|i: int| 0 <= i < s.drop_last().len() implies doc_closed(#[trigger] s.drop_last()[i], unit) by { assert(s.drop_last()[i] == s[i]); }
        lemma_cat_all_closed(s.drop_last(), unit);
        assert(doc_closed(s.last(), unit));
    }
}
pub proof fn lemma_cat_all(s: Seq<DocV>, flat: bool, unit: int)
    ensures tr(cat_all(s), flat) == tr_docs(s, flat), nest_ok(cat_all(s), unit) == nest_ok_docs(s, unit),
    decreases s.len(),
{
    reveal_with_fuel(tr, 2); reveal_with_fuel(nest_ok, 2); reveal_with_fuel(cat_all, 2); reveal_with_fuel(tr_docs, 2);
    if s.len() > 0 {
        lemma_cat_all(s.drop_last(), flat, unit);
        assert forall|i: int| 0 <= i < s.drop_last().len() implies s.drop_last()[i] == s[i] by {}
        if nest_ok_docs(s, unit) { assert(nest_ok_docs(s.drop_last(), unit)); assert(nest_ok(s.last(), unit)); }
        if nest_ok_docs(s.drop_last(), unit) && nest_ok(s.last(), unit) {
            assert forall|i: int| 0 <= i < s.len() implies nest_ok(#[trigger] s[i], unit) by { if i < s.len() - 1 { assert(s.drop_last()[i] == s[i]); } }
        }
    }
}
/// pushing a document
pub proof fn lemma_tr_docs_push(s: Seq<DocV>, d: DocV, flat: bool)
    ensures tr_docs(s.push(d), flat) == tr_seq(tr_docs(s, flat), tr(d, flat)),
{
    reveal_with_fuel(tr_docs, 2);
    assert(s.push(d).drop_last() =~= s);
}
/// appending to the last document
pub proof fn lemma_tr_docs_append_last(s: Seq<DocV>, x: DocV, flat: bool)
    requires s.len() > 0,
    ensures tr_docs(s.update(s.len() - 1, cat(s.last(), x)), flat) == tr_seq(tr_docs(s, flat), tr(x, flat)),
{
    reveal_with_fuel(tr_docs, 2); reveal_with_fuel(tr, 2);
    let s2 = s.update(s.len() - 1, cat(s.last(), x));
    assert(s2.drop_last() =~= s.drop_last());
    lemma_tr_seq_assoc(tr_docs(s.drop_last(), flat), tr(s.last(), flat), tr(x, flat));
}
/// splitting off the first document
pub proof fn lemma_tr_docs_first(s: Seq<DocV>, flat: bool)
    requires s.len() > 0,
    ensures tr_docs(s, flat) == tr_seq(tr(s[0], flat), tr_docs(s.subrange(1, s.len() as int), flat)),
    decreases s.len(),
{
    reveal_with_fuel(tr_docs, 2);
    let t = s.subrange(1, s.len() as int);
    if s.len() == 1 {
        assert(s.drop_last() =~= Seq::<DocV>::empty());
        lemma_tr_seq_assoc(tr(s[0], flat), tr_id(), tr_id());
    } else {
        lemma_tr_docs_first(s.drop_last(), flat);
        assert(s.drop_last().subrange(1, s.len() - 1) =~= t.drop_last());
        assert(t.last() == s.last());
        assert(s.drop_last()[0] == s[0]);
        lemma_tr_seq_assoc(tr(s[0], flat), tr_docs(t.drop_last(), flat), tr(s.last(), flat));
    }
}

pub proof fn lemma_docs_pushed(s0: Seq<DocV>, s1: Seq<DocV>, d: DocV, unit: int)
    requires s1 =~= s0.push(d),
    ensures
        forall|f: bool| #![trigger tr_docs(s1, f)] tr_docs(s1, f) == tr_seq(tr_docs(s0, f), tr(d, f)),
        nest_ok_docs(s1, unit) == (nest_ok_docs(s0, unit) && nest_ok(d, unit)),
{
    lemma_tr_docs_push(s0, d, true); lemma_tr_docs_push(s0, d, false);
    assert(s1 == s0.push(d));
    if nest_ok_docs(s1, unit) {
        assert forall|i: int| 0 <= i < s0.len() implies nest_ok(#[trigger] s0[i], unit) by { assert(s1[i] == s0[i]); }
        assert(s1[s0.len() as int] == d);
    }
    if nest_ok_docs(s0, unit) && nest_ok(d, unit) {
        assert forall|i: int| 0 <= i < s1.len() implies nest_ok(#[trigger] s1[i], unit) by { if i < s0.len() { assert(s1[i] == s0[i]); } }
    }
    assert forall|f: bool| #![trigger tr_docs(s1, f)] tr_docs(s1, f) == tr_seq(tr_docs(s0, f), tr(d, f)) by { if f { } else { } }
}
pub proof fn lemma_docs_last_appended(s0: Seq<DocV>, s1: Seq<DocV>, x: DocV, unit: int)
    requires s0.len() > 0, s1 =~= s0.update(s0.len() - 1, cat(s0.last(), x)),
    ensures
        forall|f: bool| #![trigger tr_docs(s1, f)] tr_docs(s1, f) == tr_seq(tr_docs(s0, f), tr(x, f)),
        nest_ok_docs(s0, unit) && nest_ok(x, unit) ==> nest_ok_docs(s1, unit),
{
    lemma_tr_docs_append_last(s0, x, true); lemma_tr_docs_append_last(s0, x, false);
    assert(s1 == s0.update(s0.len() - 1, cat(s0.last(), x)));
    reveal_with_fuel(nest_ok, 2);
    if nest_ok_docs(s0, unit) && nest_ok(x, unit) {
        assert forall|i: int| 0 <= i < s1.len() implies nest_ok(#[trigger] s1[i], unit) by {
            if i < s0.len() - 1 { assert(s1[i] == s0[i]); } else { assert(nest_ok(s0[s0.len() - 1], unit)); }
        }
    }
    assert forall|f: bool| #![trigger tr_docs(s1, f)] tr_docs(s1, f) == tr_seq(tr_docs(s0, f), tr(x, f)) by { if f { } else { } }
}
/// first + concat(rest): the whole sequence in order
pub proof fn lemma_docs_first_rest(s: Seq<DocV>, unit: int)
    requires s.len() > 0,
    ensures
        forall|f: bool| #![trigger tr_docs(s, f)] tr_docs(s, f) == tr_seq(tr(s[0], f), tr(cat_all(s.subrange(1, s.len() as int)), f)),
        nest_ok_docs(s, unit) ==> nest_ok(s[0], unit) && nest_ok(cat_all(s.subrange(1, s.len() as int)), unit),
{
    let t = s.subrange(1, s.len() as int);
    lemma_tr_docs_first(s, true); lemma_tr_docs_first(s, false);
    lemma_cat_all(t, true, unit); lemma_cat_all(t, false, unit);
    if nest_ok_docs(s, unit) { assert forall|i: int| 0 <= i < t.len() implies nest_ok(#[trigger] t[i], unit) by { assert(t[i] == s[i + 1]); } }
    assert forall|f: bool| #![trigger tr_docs(s, f)] tr_docs(s, f) == tr_seq(tr(s[0], f), tr(cat_all(t), f)) by { if f { } else { } }
}

// ===== comments (C06 / C12) =====
/// what comment.rs builds for a block comment: `align()` or `hang(1)` around plain lines (texts and mandatory breaks only)
pub open spec fn comment_doc_ok(d: DocV) -> bool {
    match d {
        DocV::Text(_) => true,
        DocV::Align(a) => plain_lines(*a) || (match *a { DocV::Nest(k, b) => k == 1 && plain_lines(*b), _ => false }),
        _ => false,
    }
}
pub open spec fn all_spaces(s: Seq<char>) -> bool { forall|i: int| 0 <= i < s.len() ==> s[i] == ' ' }
/// `k` may be cut from the front of the line: the line is blank, or its first k characters are ASCII spaces
pub open spec fn lead_ok(s: Seq<char>, k: int) -> bool {
    all_spaces(s) || (0 <= k < s.len() && forall|i: int| 0 <= i < k ==> s[i] == ' ')
}
pub proof fn lemma_lead_ok_mono(s: Seq<char>, k: int, m: int)
    requires lead_ok(s, k), 0 <= m <= k,
    ensures lead_ok(s, m),
{}
pub proof fn lemma_words_repeat_hardline(n: nat)
    ensures w_ok(repeat_doc(DocV::Hardline, n), Seq::empty()),
    decreases n,
{
    reveal_with_fuel(words, 3); reveal_with_fuel(alt_ok, 3); reveal_with_fuel(repeat_doc, 2);
    if n > 0 { lemma_words_repeat_hardline((n - 1) as nat); assert(Seq::<Seq<char>>::empty() + Seq::<Seq<char>>::empty() =~= Seq::<Seq<char>>::empty()); }
}
pub proof fn lemma_words_repeat_line(n: nat)
    ensures w_ok(repeat_doc(DocV::Line, n), Seq::empty()),
    decreases n,
{
    reveal_with_fuel(words, 3); reveal_with_fuel(alt_ok, 3); reveal_with_fuel(repeat_doc, 2);
    if n > 0 { lemma_words_repeat_line((n - 1) as nat); assert(Seq::<Seq<char>>::empty() + Seq::<Seq<char>>::empty() =~= Seq::<Seq<char>>::empty()); }
}
