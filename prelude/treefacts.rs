// ---- prelude/treefacts.rs : PARSER FACTS about error-free typst-syntax trees (assumptions, validated on fixtures) ----
pub open spec fn is_nl_space(n: &SyntaxNode) -> bool {
    n.kind_s() == SyntaxKind::Space && has_newline_s(n.text_s())
}
/// in markup the whitespace after a line comment may also be a paragraph break
pub open spec fn is_nl_space_or_parbreak(n: &SyntaxNode) -> bool {
    (n.kind_s() == SyntaxKind::Space || n.kind_s() == SyntaxKind::Parbreak) && has_newline_s(n.text_s())
}
pub open spec fn lc_followed_markup(ch: Seq<&SyntaxNode>) -> bool {
    forall|j: int| 0 <= j && j + 1 < ch.len() && (#[trigger] ch[j]).kind_s() == SyntaxKind::LineComment ==> is_nl_space_or_parbreak(ch[j + 1])
}
/// every line comment in the sequence that has a successor is followed by whitespace holding a line break
pub open spec fn lc_followed(ch: Seq<&SyntaxNode>) -> bool {
    forall|j: int| 0 <= j && j + 1 < ch.len() && (#[trigger] ch[j]).kind_s() == SyntaxKind::LineComment ==> is_nl_space(ch[j + 1])
}
pub open spec fn is_item_kind(k: SyntaxKind) -> bool { k == SyntaxKind::ListItem || k == SyntaxKind::EnumItem || k == SyntaxKind::TermItem }
pub open spec fn last_is_lc(ch: Seq<&SyntaxNode>) -> bool { ch.len() > 0 && ch.last().kind_s() == SyntaxKind::LineComment }

/// `tree_wf(n)`: n belongs to an error-free tree produced by typst_syntax::parse.  Uninterpreted; the facts used are the axioms below.
pub uninterp spec fn tree_wf(n: &SyntaxNode) -> bool;
/// the root of the parsed document (it has no parent)
pub uninterp spec fn is_doc_root(n: &SyntaxNode) -> bool;
/// a node that has a parent in an error-free tree
pub open spec fn child_wf(n: &SyntaxNode) -> bool { tree_wf(n) && !is_doc_root(n) }
/// PF0: children of a well-formed node are well formed (and, having a parent, are not the document root)
#[verifier::external_body]
pub proof fn pf_children(n: &SyntaxNode)
    requires tree_wf(n),
    ensures forall|j: int| 0 <= j < n.children_s().len() ==> tree_wf(#[trigger] n.children_s()[j]) && !is_doc_root(n.children_s()[j]),
{}
/// PF1: a line comment ends at a line break, so inside any node it is followed by a whitespace sibling containing that
/// line break; only markup (document end) can end with a line comment.  A leaf whose text starts with `//` is a LineComment.
#[verifier::external_body]
pub proof fn pf_line_comments(n: &SyntaxNode)
    requires tree_wf(n),
    ensures
        n.kind_s() != SyntaxKind::Markup && !is_item_kind(n.kind_s()) ==> lc_followed(n.children_s()),
        // in markup, and directly inside a list / enum / term item, the whitespace may also be a paragraph break
        n.kind_s() == SyntaxKind::Markup || is_item_kind(n.kind_s()) ==> lc_followed_markup(n.children_s()),
        n.kind_s() != SyntaxKind::Markup ==> !last_is_lc(n.children_s()),
{}
/// PF18: an import statement ends with its last token (trailing whitespace and comments stay outside the node), and an
/// ImportItems node without items only occurs inside parentheses (`import "a": ()`) or directly after the colon (`import "a":`)
#[verifier::external_body]
pub proof fn pf_import_end(n: &SyntaxNode)
    requires tree_wf(n), n.kind_s() == SyntaxKind::ModuleImport,
    ensures
        n.children_s().len() > 0 ==> n.children_s().last().kind_s() != SyntaxKind::Space && n.children_s().last().kind_s() != SyntaxKind::Parbreak
            && n.children_s().last().kind_s() != SyntaxKind::LineComment && n.children_s().last().kind_s() != SyntaxKind::BlockComment,
{}
#[verifier::external_body]
pub proof fn pf_import_empty_items(n: &SyntaxNode, j: int)
    requires tree_wf(n), n.kind_s() == SyntaxKind::ModuleImport, 0 <= j < n.children_s().len(),
        n.children_s()[j].kind_s() == SyntaxKind::ImportItems, n.children_s()[j].children_s().len() == 0,
    ensures (exists|i: int| 0 <= i < j && (#[trigger] n.children_s()[i]).kind_s() == SyntaxKind::LeftParen) || (j > 0 && n.children_s()[j - 1].kind_s() == SyntaxKind::Colon),
{}
pub proof fn lemma_lc_followed_concat(a: Seq<&SyntaxNode>, b: Seq<&SyntaxNode>)
    requires lc_followed(a), lc_followed(b), !last_is_lc(a),
    ensures lc_followed(a + b), last_is_lc(a + b) == last_is_lc(b) || b.len() == 0,
{
    let s = a + b;
    assert forall|j: int| 0 <= j && j + 1 < s.len() && (#[trigger] s[j]).kind_s() == SyntaxKind::LineComment implies is_nl_space(s[j + 1]) by {
        if j + 1 < a.len() { assert(s[j] == a[j] && s[j + 1] == a[j + 1]); }
        else if j >= a.len() { assert(s[j] == b[j - a.len()] && s[j + 1] == b[j + 1 - a.len()]); }
        else { assert(s[j] == a.last()); }
    }
    if b.len() > 0 { assert(s.last() == b.last()); } else { assert(s =~= a); }
}
pub proof fn lemma_lc_followed_push(a: Seq<&SyntaxNode>, n: &SyntaxNode)
    requires lc_followed(a), last_is_lc(a) ==> is_nl_space(n),
    ensures lc_followed(a.push(n)),
{
    let s = a.push(n);
    assert forall|j: int| 0 <= j && j + 1 < s.len() && (#[trigger] s[j]).kind_s() == SyntaxKind::LineComment implies is_nl_space(s[j + 1]) by {
        if j + 1 < a.len() { assert(s[j] == a[j] && s[j + 1] == a[j + 1]); }
        else { assert(s[j] == a.last()); assert(s[j + 1] == n); }
    }
}
/// PF20: a field access is its target, then (behind comments / blanks only) the dot, then (comments, blanks and) the field name
pub open spec fn is_trivia_kind(k: SyntaxKind) -> bool { k == SyntaxKind::Space || k == SyntaxKind::LineComment || k == SyntaxKind::BlockComment }
pub open spec fn field_access_shape(ch: Seq<&SyntaxNode>, p: int) -> bool {
    &&& 1 <= p < ch.len() && ch[p].kind_s() == SyntaxKind::Dot
    &&& ast::expr_kind(ch[0].kind_s())
    &&& forall|i: int| 1 <= i < p ==> is_trivia_kind((#[trigger] ch[i]).kind_s())
    &&& forall|i: int| p < i < ch.len() ==> is_trivia_kind((#[trigger] ch[i]).kind_s()) || ch[i].kind_s() == SyntaxKind::Ident
}
#[verifier::external_body]
pub proof fn pf_field_access_shape(n: &SyntaxNode)
    requires tree_wf(n), n.kind_s() == SyntaxKind::FieldAccess,
    ensures exists|p: int| field_access_shape(n.children_s(), p),
{}
/// ... and exactly one field name (index `field_idx_s`) stands behind the dot
pub uninterp spec fn field_idx_s(n: &SyntaxNode) -> int;
#[verifier::external_body]
pub proof fn pf_field_access_field(n: &SyntaxNode, p: int)
    requires tree_wf(n), n.kind_s() == SyntaxKind::FieldAccess, field_access_shape(n.children_s(), p),
    ensures p < field_idx_s(n) < n.children_s().len(), n.children_s()[field_idx_s(n)].kind_s() == SyntaxKind::Ident,
        forall|i: int| p < i < n.children_s().len() && (#[trigger] n.children_s()[i]).kind_s() == SyntaxKind::Ident ==> i == field_idx_s(n),
{}
/// the words of a field access without comments: target, dot, field name
pub proof fn lemma_field_access_words(n: &SyntaxNode)
    requires tree_wf(n), n.kind_s() == SyntaxKind::FieldAccess, !has_comment_child(n.children_s()),
    ensures n.children_s().len() > 0, 0 < field_idx_s(n) < n.children_s().len(),
        sig_leaves(n) =~= sig_leaves(n.children_s()[0]) + seq!["."@] + sig_leaves(n.children_s()[field_idx_s(n)]),
        word_of("."@) =~= seq!["."@],
{
    let ch = n.children_s();
    pf_field_access_shape(n); pf_children(n); pf_sig(n);
    let p = choose|p: int| field_access_shape(ch, p);
    pf_field_access_field(n, p);
    let fi = field_idx_s(n);
    reveal_strlit(".");
    assert forall|k: int| 0 <= k < ch.len() && k != 0 && k != p && k != fi implies sig_leaves(#[trigger] ch[k]).len() == 0 by {
        pf_sig(ch[k]);
        assert(is_trivia_kind(ch[k].kind_s()));
        assert(!is_comment_kind(ch[k].kind_s()));
    }
    lemma_sig_concat_three(ch, 0, p, fi);
    pf_sig(ch[p]); pf_token_text(ch[p]);
    assert("."@ =~= seq!['.']);
    let d = "."@;
    assert(d.len() == 1 && d[0] == '.');
    assert(!is_blank(d)) by { assert(d[0] != ' '); }
    assert(!is_opt_punct(d)) by { assert(seq![','][0] == ',' && seq!['('][0] == '(' && seq![')'][0] == ')' && seq!['{'][0] == '{' && seq!['}'][0] == '}' && seq![';'][0] == ';'); }
    assert(!is_bc(d) && !(d =~= seq!['(', ':']));
    assert(sig_leaves(ch[p]) =~= seq!["."@]);
}

/// PF21: a binary expression whose operator is not `not in` is its left operand, then (behind comments / blanks only) the operator
/// token, then (comments, blanks and) the right operand
pub open spec fn binary_shape(ch: Seq<&SyntaxNode>, p: int) -> bool {
    &&& 1 <= p < ch.len() && BinOp::from_kind_s(ch[p].kind_s()) is Some
    &&& ast::expr_kind(ch[0].kind_s())
    &&& forall|i: int| 1 <= i < p ==> is_trivia_kind((#[trigger] ch[i]).kind_s())
    &&& forall|i: int| p < i < ch.len() ==> is_trivia_kind((#[trigger] ch[i]).kind_s()) || ast::expr_kind(ch[i].kind_s())
}
#[verifier::external_body]
pub proof fn pf_binary_shape(n: &SyntaxNode)
    requires tree_wf(n), n.kind_s() == SyntaxKind::Binary, ast::Binary(n).op_s() != BinOp::NotIn,
    ensures exists|p: int| binary_shape(n.children_s(), p),
{}
/// PF22: an operator token below a binary expression is spelled like the operator it denotes
#[verifier::external_body]
pub proof fn pf_op_token_text(n: &SyntaxNode, c: &SyntaxNode)
    requires tree_wf(n), n.kind_s() == SyntaxKind::Binary, is_child_of(c, n), BinOp::from_kind_s(c.kind_s()) is Some,
    ensures c.text_s() == BinOp::from_kind_s(c.kind_s())->Some_0.as_str_s(), !is_inner_kind(c.kind_s()),
{}
/// PF23: a parenthesized expression / pattern has exactly one child that is not a parenthesis, a blank or a comment: its body, which
/// `expr()` / `pattern()` return
pub uninterp spec fn paren_body_idx_s(n: &SyntaxNode) -> int;
#[verifier::external_body]
pub proof fn pf_parenthesized_body(n: &SyntaxNode)
    requires tree_wf(n), n.kind_s() == SyntaxKind::Parenthesized,
    ensures 0 <= paren_body_idx_s(n) < n.children_s().len(),
        forall|i: int| 0 <= i < n.children_s().len() && i != paren_body_idx_s(n) ==> is_trivia_kind((#[trigger] n.children_s()[i]).kind_s())
            || n.children_s()[i].kind_s() == SyntaxKind::LeftParen || n.children_s()[i].kind_s() == SyntaxKind::RightParen,
{}
/// the words of a parenthesized node without comments are those of its body
pub proof fn lemma_parenthesized_words(n: &SyntaxNode)
    requires tree_wf(n), n.kind_s() == SyntaxKind::Parenthesized, !has_comment_child(n.children_s()),
    ensures sig_leaves(n) =~= sig_leaves(n.children_s()[paren_body_idx_s(n)]),
{
    let ch = n.children_s();
    pf_parenthesized_body(n); pf_children(n); pf_sig(n);
    let b = paren_body_idx_s(n);
    reveal_strlit("("); reveal_strlit(")");
    assert forall|k: int| 0 <= k < ch.len() && !(b <= k < b + 1) implies sig_leaves(#[trigger] ch[k]).len() == 0 by {
        pf_sig(ch[k]); pf_token_text(ch[k]);
        assert(!is_comment_kind(ch[k].kind_s()));
    }
    lemma_sig_concat_edges(ch, b, b + 1);
    assert(ch.subrange(b, b + 1) =~= seq![ch[b]]);
    reveal_with_fuel(sig_concat, 2);
    assert(seq![ch[b]].drop_last() =~= Seq::<&SyntaxNode>::empty());
    assert(sig_concat(seq![ch[b]]) =~= sig_leaves(ch[b]));
}
/// PF2: leaf texts. A LineComment's text starts with `//` and contains no newline; no other leaf's text starts with `//`
/// except inside Text/Raw/Str/Link tokens, which the printer emits verbatim; a BlockComment's text starts with `/*`.
pub open spec fn lc_text(s: Seq<char>) -> bool { is_lc(s) && !has_newline_s(s) }
#[verifier::external_body]
pub proof fn pf_leaf_text(n: &SyntaxNode)
    requires tree_wf(n),
    ensures
        n.kind_s() == SyntaxKind::LineComment ==> lc_text(n.text_s()),
        n.kind_s() == SyntaxKind::BlockComment ==> n.text_s().len() >= 2 && n.text_s()[0] == '/' && n.text_s()[1] == '*',
        // a paragraph break holds at least two line breaks
        n.kind_s() == SyntaxKind::Parbreak ==> count_newlines_s(n.text_s()) >= 2,
        // only line comments start with `//`
        n.kind_s() != SyntaxKind::LineComment ==> !is_lc(n.text_s()) && !is_lc(n.full_text_s()),
        // literal keywords
        n.kind_s() == SyntaxKind::None ==> n.text_s() =~= "none"@,
        n.kind_s() == SyntaxKind::Auto ==> n.text_s() =~= "auto"@,
{}

/// leaf kinds the printer must re-emit from their own token text (C10 / C08)
pub open spec fn is_exact_leaf_kind(k: SyntaxKind) -> bool {
    matches!(k, SyntaxKind::Linebreak | SyntaxKind::Escape | SyntaxKind::Shorthand | SyntaxKind::SmartQuote | SyntaxKind::Link
        | SyntaxKind::Label | SyntaxKind::MathText | SyntaxKind::MathIdent | SyntaxKind::MathAlignPoint | SyntaxKind::MathShorthand
        | SyntaxKind::Ident | SyntaxKind::Bool | SyntaxKind::Int | SyntaxKind::Float | SyntaxKind::Numeric | SyntaxKind::Str)
}
/// what `get_fold_style` must return
pub open spec fn fold_style_s(store: AttrStore, ctx: Context, n: &SyntaxNode) -> FoldStyle {
    if ctx.break_suppressed {
        if store.multiline_s(n.span_s()) { FoldStyle::Fit } else { FoldStyle::Always }
    } else if store.flavor_s(n.span_s()) { FoldStyle::Never } else { FoldStyle::Fit }
}
/// `@typstyle off` in front of the body of a code block
pub open spec fn code_body_disabled(store: AttrStore, n: &SyntaxNode) -> bool {
    exists|j: int| 0 <= j < n.children_s().len() && (#[trigger] n.children_s()[j]).kind_s() == SyntaxKind::Code && store.disabled_s(n.children_s()[j].span_s())
}
/// the children of a code block with the `Code` child replaced by its own children (what convert_code_block hands to the list engine)
pub open spec fn flat_code<'a>(ch: Seq<&'a SyntaxNode>) -> Seq<&'a SyntaxNode> decreases ch.len() {
    if ch.len() == 0 { Seq::empty() }
    else if ch.last().kind_s() == SyntaxKind::Code { flat_code(ch.drop_last()) + ch.last().children_s() }
    else { flat_code(ch.drop_last()).push(ch.last()) }
}
/// PF17: a code block is `{`, one `Code` child (possibly empty), `}`, with whitespace and comments around it; in the flattened
/// sequence a line comment is still followed by its line break (validated by `vp-replay FACTS`)
#[verifier::external_body]
pub proof fn pf_code_block(n: &SyntaxNode)
    requires tree_wf(n), n.kind_s() == SyntaxKind::CodeBlock,
    ensures
        lc_followed(flat_code(n.children_s())),
        forall|i: int, j: int| 0 <= i < n.children_s().len() && 0 <= j < n.children_s().len() && (#[trigger] n.children_s()[i]).kind_s() == SyntaxKind::Code
            && (#[trigger] n.children_s()[j]).kind_s() == SyntaxKind::Code ==> i == j,
{}
/// PF-root: the facts above hold for every subtree without syntax errors
#[verifier::external_body]
pub proof fn pf_error_free(n: &SyntaxNode)
    requires !n.erroneous_s(),
    ensures tree_wf(n),
{}

/// constructs whose line breaks sit inside their own delimiters (property C01): they may be laid out over several lines
/// without protective parentheses
pub open spec fn self_delimited_kind(k: SyntaxKind) -> bool {
    matches!(k, SyntaxKind::Parenthesized | SyntaxKind::CodeBlock | SyntaxKind::ContentBlock | SyntaxKind::FuncCall | SyntaxKind::Array
        | SyntaxKind::Dict | SyntaxKind::Conditional | SyntaxKind::WhileLoop | SyntaxKind::ForLoop | SyntaxKind::Contextual
        | SyntaxKind::Closure | SyntaxKind::Raw)
}

/// C09: what `convert_math` must emit for one child of a Math node: whitespace becomes exactly a blank or a mandatory
/// line break (according to whether it held one), `#` and every other non-expression token are re-emitted as their own text;
/// expression children yield whatever `convert_expr` returns (one piece each, nothing in between)
pub open spec fn math_piece_ok(n: &SyntaxNode, d: DocV) -> bool {
    &&& (n.kind_s() == SyntaxKind::Space ==> d == (if has_newline_s(n.text_s()) { DocV::Hardline } else { sp() }))
    &&& (n.kind_s() == SyntaxKind::Hash ==> d == txt("#"@))
    &&& (!ast::expr_kind(n.kind_s()) && n.kind_s() != SyntaxKind::Space && n.kind_s() != SyntaxKind::Hash ==> d == txt(n.text_s()))
}

/// C07: an expression child of a Math node that carries an `@typstyle off` mark is one piece: its source text
pub open spec fn math_piece_verbatim(store: AttrStore, n: &SyntaxNode, d: DocV) -> bool {
    store.disabled_s(n.span_s()) && ast::expr_kind(n.kind_s()) ==> d == txt(n.full_text_s())
}

/// PF4: a MathDelimited node has its opening and closing delimiter as first and last child
#[verifier::external_body]
pub proof fn pf_math_delimited(n: &SyntaxNode)
    requires tree_wf(n), n.kind_s() == SyntaxKind::MathDelimited,
    ensures n.children_s().len() >= 2, n.children_s().last().kind_s() != SyntaxKind::Space,
{}
/// C09: a delimited group keeps its inner edge whitespace: the whitespace token right after the opening delimiter and the
/// one right before the closing delimiter (if present) become exactly a blank or a mandatory break, by their newline content
pub open spec fn space_piece(n: &SyntaxNode) -> DocV { if has_newline_s(n.text_s()) { DocV::Hardline } else { sp() } }
pub open spec fn delim_inner(ch: Seq<&SyntaxNode>) -> Seq<&SyntaxNode> { ch.subrange(1, ch.len() - 1) }
pub open spec fn delim_open_is_space(ch: Seq<&SyntaxNode>) -> bool { delim_inner(ch).len() > 0 && delim_inner(ch)[0].kind_s() == SyntaxKind::Space }
pub open spec fn delim_inner1(ch: Seq<&SyntaxNode>) -> Seq<&SyntaxNode> {
    if delim_open_is_space(ch) { delim_inner(ch).subrange(1, delim_inner(ch).len() as int) } else { delim_inner(ch) }
}
pub open spec fn delim_close_is_space(ch: Seq<&SyntaxNode>) -> bool { delim_inner1(ch).len() > 0 && delim_inner1(ch).last().kind_s() == SyntaxKind::Space }
pub open spec fn delim_open_space(ch: Seq<&SyntaxNode>) -> DocV { if delim_open_is_space(ch) { space_piece(delim_inner(ch)[0]) } else { DocV::Nil } }
pub open spec fn delim_close_space(ch: Seq<&SyntaxNode>) -> DocV { if delim_close_is_space(ch) { space_piece(delim_inner1(ch).last()) } else { DocV::Nil } }
pub open spec fn math_delimited_ok(ch: Seq<&SyntaxNode>, unit: int, d: DocV) -> bool {
    exists|o: DocV, b: DocV, c: DocV| d == #[trigger] cat(cat(o, cat(nest(unit, cat(delim_open_space(ch), b)), delim_close_space(ch))), c)
}
pub proof fn lemma_lc_followed_sub(ch: Seq<&SyntaxNode>, a: int, b: int)
    requires lc_followed(ch), 0 <= a <= b <= ch.len(),
    ensures lc_followed(ch.subrange(a, b)),
{
    let s = ch.subrange(a, b);
    assert forall|j: int| 0 <= j && j + 1 < s.len() && (#[trigger] s[j]).kind_s() == SyntaxKind::LineComment implies is_nl_space(s[j + 1]) by {
        assert(s[j] == ch[a + j]); assert(s[j + 1] == ch[a + j + 1]);
    }
}

/// C10: what `convert_raw` must emit for the children of a (non-verbatim) raw node, in order: delimiter and language tag as
/// their own text, each text line verbatim, each trimmed part as exactly one blank or one mandatory break; nothing else
pub open spec fn raw_piece(n: &SyntaxNode) -> Seq<DocV> {
    if n.kind_s() == SyntaxKind::RawDelim || n.kind_s() == SyntaxKind::RawLang { seq![txt(n.text_s())] }
    else if n.kind_s() == SyntaxKind::Text { seq![txt(n.full_text_s())] }
    else if n.kind_s() == SyntaxKind::RawTrimmed { seq![if has_newline_s(n.text_s()) { DocV::Hardline } else { sp() }] }
    else { Seq::empty() }
}
pub open spec fn raw_pieces(ch: Seq<&SyntaxNode>) -> Seq<DocV> decreases ch.len() {
    if ch.len() == 0 { Seq::empty() } else { raw_pieces(ch.drop_last()) + raw_piece(ch.last()) }
}
/// `lc_followed` behind an opaque name (its trigger `ch[j]` yields the term `ch[j + 1]`: kept out of loops with many other quantifiers)
#[verifier::opaque]
pub open spec fn lc_followed_o(ch: Seq<&SyntaxNode>) -> bool { lc_followed(ch) }
pub proof fn lemma_lc_o_intro(ch: Seq<&SyntaxNode>)
    requires lc_followed(ch),
    ensures lc_followed_o(ch),
{ reveal(lc_followed_o); }
pub proof fn lemma_lc_o_at(ch: Seq<&SyntaxNode>, j: int)
    requires lc_followed_o(ch), 0 <= j, j + 1 < ch.len(), ch[j].kind_s() == SyntaxKind::LineComment,
    ensures is_nl_space(ch[j + 1]),
{ reveal(lc_followed_o); }
