// ---- prelude/listspec.rs : ghost view of ListStylist (layout/list.rs) ----
pub ghost enum ItemV { Comment(DocV), Commented { body: DocV, after: Option<DocV> }, Linebreak(nat) }
pub open spec fn item_may_open(it: ItemV) -> bool {
    match it { ItemV::Comment(c) => t_may_open(c), ItemV::Commented { body, after } => (after matches Some(a) && t_may_open(a)), ItemV::Linebreak(_) => false }
}
pub open spec fn item_ok(it: ItemV, unit: int) -> bool {
    match it {
        ItemV::Comment(c) => nest_ok(c, unit) && t_safe(c),
        ItemV::Commented { body, after } => doc_closed(body, unit) && (after matches Some(a) ==> nest_ok(a, unit) && t_safe(a)),
        ItemV::Linebreak(_) => true,
    }
}
/// C04/C06 for lists: all item documents are comment-safe, and an item can end inside a line comment only if the
/// stylist has recorded that the list contains a line comment (which forces the never-fold layout)
pub open spec fn list_wf(items: Seq<ItemV>, has_line_comment: bool, unit: int) -> bool {
    &&& forall|i: int| 0 <= i < items.len() ==> item_ok(#[trigger] items[i], unit)
    &&& (!has_line_comment ==> forall|i: int| 0 <= i < items.len() ==> !item_may_open(#[trigger] items[i]))
}
pub proof fn lemma_repeat_doc_closed(d: DocV, n: nat, unit: int)
    requires doc_closed(d, unit),
    ensures doc_closed(repeat_doc(d, n), unit),
    decreases n,
{
    reveal_with_fuel(tr, 3); reveal_with_fuel(nest_ok, 3); reveal_with_fuel(repeat_doc, 2);
    if n > 0 { lemma_repeat_doc_closed(d, (n - 1) as nat, unit); }
}

/// free (not yet placed) comments: all comment-safe; only the last one may be an unterminated line comment
pub open spec fn free_ok(free: Seq<DocV>, unit: int) -> bool {
    forall|i: int| 0 <= i < free.len() ==> nest_ok(#[trigger] free[i], unit) && t_safe(free[i]) && (i < free.len() - 1 ==> !t_may_open(free[i]))
}
pub open spec fn free_pending(free: Seq<DocV>) -> bool { free.len() > 0 && t_may_open(free.last()) }
pub open spec fn last_after_closed(items: Seq<ItemV>) -> bool {
    items.len() > 0 ==> (match items.last() { ItemV::Commented { body, after } => (after matches Some(a) ==> !t_may_open(a)), _ => true })
}
pub proof fn lemma_intersperse_closed(s: Seq<DocV>, sep: DocV, unit: int)
    requires forall|i: int| 0 <= i < s.len() ==> doc_closed(#[trigger] s[i], unit), doc_closed(sep, unit),
    ensures doc_closed(intersperse_doc(s, sep), unit),
    decreases s.len(),
{
    reveal_with_fuel(tr, 4); reveal_with_fuel(nest_ok, 4); reveal_with_fuel(intersperse_doc, 2);
    if s.len() > 1 {
        assert forall|i: int| 0 <= i < s.drop_last().len() implies doc_closed(#[trigger] s.drop_last()[i], unit) by { assert(s.drop_last()[i] == s[i]); }
        lemma_intersperse_closed(s.drop_last(), sep, unit);
        assert(doc_closed(s.last(), unit));
    } else if s.len() == 1 { assert(doc_closed(s[0], unit)); }
}
/// interspersing free comments with a blank: safe, and open exactly if the last one is
pub proof fn lemma_intersperse_free(s: Seq<DocV>, unit: int)
    requires free_ok(s, unit),
    ensures
        nest_ok(intersperse_doc(s, sp()), unit), t_safe(intersperse_doc(s, sp())),
        t_may_open(intersperse_doc(s, sp())) ==> free_pending(s),
    decreases s.len(),
{
    reveal_with_fuel(tr, 4); reveal_with_fuel(nest_ok, 4); reveal_with_fuel(intersperse_doc, 2);
    if s.len() > 1 {
        let p = s.drop_last();
        assert forall|i: int| 0 <= i < p.len() implies nest_ok(#[trigger] p[i], unit) && t_safe(p[i]) && !t_may_open(p[i]) by { assert(p[i] == s[i]); }
        assert(free_ok(p, unit));
        lemma_intersperse_free(p, unit);
        assert(!free_pending(p)) by { assert(p.last() == s[s.len() - 2]); }
        assert(nest_ok(s.last(), unit) && t_safe(s.last()));
    } else if s.len() == 1 { assert(nest_ok(s[0], unit) && t_safe(s[0])); }
}

// ===== W for the list engine (C01 / C06): the words of items and free comments, in order =====
/// a document whose words do not depend on the layout
pub open spec fn wst(d: DocV) -> bool { alt_ok(d) && words(d, true) == words(d, false) }
pub open spec fn wd(d: DocV) -> Seq<Seq<char>> { words(d, false) }
pub open spec fn item_words(it: ItemV) -> Seq<Seq<char>> {
    match it {
        ItemV::Comment(c) => wd(c),
        ItemV::Commented { body, after } => wd(body) + (match after { Option::Some(a) => wd(a), Option::None => Seq::empty() }),
        ItemV::Linebreak(_) => Seq::empty(),
    }
}
pub open spec fn item_wst(it: ItemV) -> bool {
    match it {
        ItemV::Comment(c) => wst(c),
        ItemV::Commented { body, after } => wst(body) && (after matches Some(a) ==> wst(a)),
        ItemV::Linebreak(_) => true,
    }
}
#[verifier::opaque]
pub open spec fn items_w(s: Seq<ItemV>) -> Seq<Seq<char>> decreases s.len() {
    if s.len() == 0 { Seq::empty() } else { items_w(s.drop_last()) + item_words(s.last()) }
}
#[verifier::opaque]
pub open spec fn items_wst(s: Seq<ItemV>) -> bool { forall|i: int| 0 <= i < s.len() ==> item_wst(#[trigger] s[i]) }
#[verifier::opaque]
pub open spec fn docs_w(s: Seq<DocV>) -> Seq<Seq<char>> decreases s.len() {
    if s.len() == 0 { Seq::empty() } else { docs_w(s.drop_last()) + wd(s.last()) }
}
#[verifier::opaque]
pub open spec fn docs_wst(s: Seq<DocV>) -> bool { forall|i: int| 0 <= i < s.len() ==> wst(#[trigger] s[i]) }

pub proof fn lemma_lw_empty()
    ensures items_w(Seq::<ItemV>::empty()) =~= Seq::<Seq<char>>::empty(), items_wst(Seq::<ItemV>::empty()),
        docs_w(Seq::<DocV>::empty()) =~= Seq::<Seq<char>>::empty(), docs_wst(Seq::<DocV>::empty()),
        forall|s: Seq<DocV>| s.len() == 0 ==> #[trigger] docs_w(s) == Seq::<Seq<char>>::empty(),
        forall|s: Seq<DocV>| s.len() == 0 ==> #[trigger] docs_wst(s),
{
    reveal_with_fuel(items_w, 1); reveal(items_wst); reveal_with_fuel(docs_w, 1); reveal(docs_wst);
    assert forall|s: Seq<DocV>| s.len() == 0 implies #[trigger] docs_w(s) == Seq::<Seq<char>>::empty() by { assert(s =~= Seq::<DocV>::empty()); }
}
pub proof fn lemma_items_w_push(s: Seq<ItemV>, it: ItemV)
    ensures items_w(s.push(it)) == items_w(s) + item_words(it), items_wst(s.push(it)) == (items_wst(s) && item_wst(it)),
{
    reveal_with_fuel(items_w, 2); reveal(items_wst);
    let t = s.push(it);
    assert(t.drop_last() =~= s);
    if items_wst(t) { assert forall|i: int| 0 <= i < s.len() implies item_wst(#[trigger] s[i]) by { assert(t[i] == s[i]); } assert(t[s.len() as int] == it); }
    if items_wst(s) && item_wst(it) { assert forall|i: int| 0 <= i < t.len() implies item_wst(#[trigger] t[i]) by { if i < s.len() { assert(t[i] == s[i]); } } }
}
pub proof fn lemma_docs_w_push(s: Seq<DocV>, d: DocV)
    ensures docs_w(s.push(d)) == docs_w(s) + wd(d), docs_wst(s.push(d)) == (docs_wst(s) && wst(d)),
{
    reveal_with_fuel(docs_w, 2); reveal(docs_wst);
    let t = s.push(d);
    assert(t.drop_last() =~= s);
    if docs_wst(t) { assert forall|i: int| 0 <= i < s.len() implies wst(#[trigger] s[i]) by { assert(t[i] == s[i]); } assert(t[s.len() as int] == d); }
    if docs_wst(s) && wst(d) { assert forall|i: int| 0 <= i < t.len() implies wst(#[trigger] t[i]) by { if i < s.len() { assert(t[i] == s[i]); } } }
}
/// the last accumulated document gets something appended
pub proof fn lemma_docs_w_append_last(s: Seq<DocV>, x: DocV)
    requires s.len() > 0,
    ensures docs_w(s.update(s.len() - 1, cat(s.last(), x))) =~= docs_w(s) + wd(x),
        docs_wst(s) && wst(x) ==> docs_wst(s.update(s.len() - 1, cat(s.last(), x))),
{
    reveal_with_fuel(docs_w, 2); reveal(docs_wst); reveal_with_fuel(words, 2); reveal_with_fuel(alt_ok, 2);
    let t = s.update(s.len() - 1, cat(s.last(), x));
    assert(t.drop_last() =~= s.drop_last());
    assert(wd(t.last()) =~= wd(s.last()) + wd(x));
    if docs_wst(s) && wst(x) { assert forall|i: int| 0 <= i < t.len() implies wst(#[trigger] t[i]) by { if i < s.len() - 1 { assert(t[i] == s[i]); } else { assert(wst(s[s.len() - 1])); } } }
}
/// the concatenation of the accumulated documents carries their words in order
pub proof fn lemma_docs_w_cat_all(s: Seq<DocV>)
    ensures wd(cat_all(s)) =~= docs_w(s), docs_wst(s) ==> wst(cat_all(s)),
    decreases s.len(),
{
    reveal_with_fuel(docs_w, 2); reveal(docs_wst); reveal_with_fuel(words, 2); reveal_with_fuel(alt_ok, 2); reveal_with_fuel(cat_all, 2);
    if s.len() > 0 {
        lemma_docs_w_cat_all(s.drop_last());
        if docs_wst(s) { assert forall|i: int| 0 <= i < s.drop_last().len() implies wst(#[trigger] s.drop_last()[i]) by { assert(s.drop_last()[i] == s[i]); } assert(wst(s[s.len() - 1])); }
    }
}
pub proof fn lemma_docs_w_first_rest(s: Seq<DocV>)
    requires s.len() > 0,
    ensures docs_w(s) =~= wd(s[0]) + docs_w(s.subrange(1, s.len() as int)), docs_wst(s) ==> wst(s[0]) && docs_wst(s.subrange(1, s.len() as int)),
    decreases s.len(),
{
    reveal_with_fuel(docs_w, 2); reveal(docs_wst);
    let t = s.subrange(1, s.len() as int);
    if s.len() == 1 { assert(s.drop_last() =~= Seq::<DocV>::empty()); assert(t =~= Seq::<DocV>::empty()); }
    else {
        lemma_docs_w_first_rest(s.drop_last());
        assert(s.drop_last().subrange(1, s.len() - 1) =~= t.drop_last());
        assert(t.last() == s.last());
        assert(s.drop_last()[0] == s[0]);
    }
    if docs_wst(s) { assert forall|i: int| 0 <= i < t.len() implies wst(#[trigger] t[i]) by { assert(t[i] == s[i + 1]); } assert(wst(s[0])); }
}
/// dropping a trailing line-break item changes nothing
pub proof fn lemma_items_w_drop_linebreak(s: Seq<ItemV>)
    requires s.len() > 0, s.last() is Linebreak,
    ensures items_w(s.drop_last()) =~= items_w(s), items_wst(s) ==> items_wst(s.drop_last()),
{
    reveal_with_fuel(items_w, 2); reveal(items_wst);
    if items_wst(s) { assert forall|i: int| 0 <= i < s.drop_last().len() implies item_wst(#[trigger] s.drop_last()[i]) by { assert(s.drop_last()[i] == s[i]); } }
}
/// the last item gets more attached comments
pub proof fn lemma_items_w_attach(s: Seq<ItemV>, t: Seq<ItemV>, added: DocV)
    requires
        s.len() > 0, t.len() == s.len(), t.drop_last() =~= s.drop_last(), wst(added),
        s.last() matches ItemV::Commented { body: b0, after: a0 } && t.last() matches ItemV::Commented { body: b1, after: a1 } && b1 == b0
            && a1 == Some(match a0 { Option::Some(a) => cat(a, added), Option::None => added }),
    ensures items_w(t) =~= items_w(s) + wd(added), items_wst(s) ==> items_wst(t),
{
    reveal_with_fuel(items_w, 2); reveal(items_wst); reveal_with_fuel(words, 2); reveal_with_fuel(alt_ok, 2);
    if items_wst(s) {
        assert(item_wst(s[s.len() - 1]));
        assert forall|i: int| 0 <= i < t.len() implies item_wst(#[trigger] t[i]) by { if i < t.len() - 1 { assert(t[i] == t.drop_last()[i]); assert(s[i] == s.drop_last()[i]); } }
    }
}
/// free comments become comment items, in order
pub proof fn lemma_items_w_detach(s: Seq<ItemV>, free: Seq<DocV>, t: Seq<ItemV>)
    requires t.len() == s.len() + free.len(), forall|k: int| 0 <= k < s.len() ==> t[k] == s[k], forall|k: int| 0 <= k < free.len() ==> #[trigger] t[s.len() + k] == ItemV::Comment(free[k]),
    ensures items_w(t) =~= items_w(s) + docs_w(free), items_wst(s) && docs_wst(free) ==> items_wst(t),
    decreases free.len(),
{
    reveal_with_fuel(items_w, 2); reveal_with_fuel(docs_w, 2); reveal(items_wst); reveal(docs_wst);
    if free.len() == 0 { assert(t =~= s); }
    else {
        let t1 = t.drop_last();
        let f1 = free.drop_last();
        assert forall|k: int| 0 <= k < f1.len() implies #[trigger] t1[s.len() + k] == ItemV::Comment(f1[k]) by { assert(t1[s.len() + k] == t[s.len() + k]); assert(f1[k] == free[k]); }
        lemma_items_w_detach(s, f1, t1);
        assert(t.last() == t[s.len() + (free.len() - 1)]);
        assert(t.last() == ItemV::Comment(free.last()));
        if items_wst(s) && docs_wst(free) {
            assert forall|i: int| 0 <= i < f1.len() implies wst(#[trigger] f1[i]) by { assert(f1[i] == free[i]); }
            assert forall|i: int| 0 <= i < t.len() implies item_wst(#[trigger] t[i]) by { if i < t1.len() { assert(t[i] == t1[i]); } else { assert(wst(free[free.len() - 1])); } }
        }
    }
}
/// interspersing layout-stable documents with a wordless separator: the words in order
pub proof fn lemma_intersperse_words(s: Seq<DocV>, sep: DocV)
    requires docs_wst(s), wst(sep), wd(sep).len() == 0,
    ensures wst(intersperse_doc(s, sep)), wd(intersperse_doc(s, sep)) =~= docs_w(s),
    decreases s.len(),
{
    reveal_with_fuel(docs_w, 2); reveal(docs_wst); reveal_with_fuel(words, 4); reveal_with_fuel(alt_ok, 4); reveal_with_fuel(intersperse_doc, 2);
    if s.len() > 1 {
        let p = s.drop_last();
        assert forall|i: int| 0 <= i < p.len() implies wst(#[trigger] p[i]) by { assert(p[i] == s[i]); }
        lemma_intersperse_words(p, sep);
        assert(wst(s[s.len() - 1]));
    } else if s.len() == 1 {
        assert(wst(s[0]));
        assert(s.drop_last() =~= Seq::<DocV>::empty());
        reveal_with_fuel(docs_w, 3);
    }
}
pub proof fn lemma_items_w_step(s: Seq<ItemV>, j: int)
    requires 0 <= j < s.len(),
    ensures items_w(s.subrange(0, j + 1)) == items_w(s.subrange(0, j)) + item_words(s[j]), items_wst(s) ==> item_wst(s[j]),
{
    assert(s.subrange(0, j + 1) =~= s.subrange(0, j).push(s[j]));
    lemma_items_w_push(s.subrange(0, j), s[j]);
    reveal(items_wst);
}
/// the algebra of W over the document constructors, as quantified facts triggered by the constructor terms (cheaper than unfolding
/// `words` / `alt_ok` with fuel on deep documents)
pub proof fn lemma_w_algebra()
    ensures
        forall|a: DocV, b: DocV| #![trigger cat(a, b)] wd(cat(a, b)) == wd(a) + wd(b) && (wst(a) && wst(b) ==> wst(cat(a, b))),
        forall|n: int, a: DocV| #![trigger nest(n, a)] wd(nest(n, a)) == wd(a) && (wst(a) ==> wst(nest(n, a))),
        forall|a: DocV| #![trigger group(a)] wd(group(a)) == wd(a) && (wst(a) ==> wst(group(a))),
        forall|a: DocV, b: DocV| #![trigger flat_alt(a, b)] wd(flat_alt(a, b)) == wd(a) && (wst(a) && wst(b) && wd(a) == wd(b) ==> wst(flat_alt(a, b))),
        forall|s: Seq<char>| #![trigger txt(s)] wd(txt(s)) == word_of(s) && wst(txt(s)),
        wd(DocV::Nil).len() == 0 && wst(DocV::Nil), wd(DocV::Hardline).len() == 0 && wst(DocV::Hardline),
        wd(DocV::Line).len() == 0 && wst(DocV::Line), wd(DocV::LineSoft).len() == 0 && wst(DocV::LineSoft), wd(sp()).len() == 0 && wst(sp()),
{
    reveal_with_fuel(words, 3); reveal_with_fuel(alt_ok, 3);
    assert forall|a: DocV, b: DocV| #![trigger flat_alt(a, b)] wd(flat_alt(a, b)) == wd(a) && (wst(a) && wst(b) && wd(a) == wd(b) ==> wst(flat_alt(a, b))) by {}
}
