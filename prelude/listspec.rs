// ---- prelude/listspec.rs : ghost view of ListStylist (layout/list.rs) ----
pub ghost enum ItemV { Comment(DocV), Commented { body: DocV, after: Option<DocV> }, Linebreak(nat) }
pub open spec fn item_may_open(it: ItemV) -> bool {
    match it { ItemV::Comment(c) => t_may_open(c), ItemV::Commented { body, after } => (after matches Some(a) && t_may_open(a)), ItemV::Linebreak(_) => false }
}
pub open spec fn item_ok(it: ItemV, unit: int) -> bool {
    match it {
        ItemV::Comment(c) => nest_ok(c, unit) && t_safe(c),
        ItemV::Commented { body, after } => doc_closed(body, unit) && (after matches Some(a) ==> nest_ok(a, unit) && t_safe(a)),
        ItemV::Linebreak(_) => true,
    }
}
/// C04/C06 for lists: all item documents are comment-safe, and an item can end inside a line comment only if the
/// stylist has recorded that the list contains a line comment (which forces the never-fold layout)
pub open spec fn list_wf(items: Seq<ItemV>, has_line_comment: bool, unit: int) -> bool {
    &&& forall|i: int| 0 <= i < items.len() ==> item_ok(#[trigger] items[i], unit)
    &&& (!has_line_comment ==> forall|i: int| 0 <= i < items.len() ==> !item_may_open(#[trigger] items[i]))
}
pub proof fn lemma_repeat_doc_closed(d: DocV, n: nat, unit: int)
    requires doc_closed(d, unit),
    ensures doc_closed(repeat_doc(d, n), unit),
    decreases n,
{
    reveal_with_fuel(tr, 3); reveal_with_fuel(nest_ok, 3); reveal_with_fuel(repeat_doc, 2);
    if n > 0 { lemma_repeat_doc_closed(d, (n - 1) as nat, unit); }
}
