// ---- prelude/listspec.rs : ghost view of ListStylist (layout/list.rs) ----
pub ghost enum ItemV { Comment(DocV), Commented { body: DocV, after: Option<DocV> }, Linebreak(nat) }
pub open spec fn item_may_open(it: ItemV) -> bool {
    match it { ItemV::Comment(c) => t_may_open(c), ItemV::Commented { body, after } => (after matches Some(a) && t_may_open(a)), ItemV::Linebreak(_) => false }
}
pub open spec fn item_ok(it: ItemV, unit: int) -> bool {
    match it {
        ItemV::Comment(c) => nest_ok(c, unit) && t_safe(c),
        ItemV::Commented { body, after } => doc_closed(body, unit) && (after matches Some(a) ==> nest_ok(a, unit) && t_safe(a)),
        ItemV::Linebreak(_) => true,
    }
}
/// C04/C06 for lists: all item documents are comment-safe, and an item can end inside a line comment only if the
/// stylist has recorded that the list contains a line comment (which forces the never-fold layout)
pub open spec fn list_wf(items: Seq<ItemV>, has_line_comment: bool, unit: int) -> bool {
    &&& forall|i: int| 0 <= i < items.len() ==> item_ok(#[trigger] items[i], unit)
    &&& (!has_line_comment ==> forall|i: int| 0 <= i < items.len() ==> !item_may_open(#[trigger] items[i]))
}
pub proof fn lemma_repeat_doc_closed(d: DocV, n: nat, unit: int)
    requires doc_closed(d, unit),
    ensures doc_closed(repeat_doc(d, n), unit),
    decreases n,
{
    reveal_with_fuel(tr, 3); reveal_with_fuel(nest_ok, 3); reveal_with_fuel(repeat_doc, 2);
    if n > 0 { lemma_repeat_doc_closed(d, (n - 1) as nat, unit); }
}

/// free (not yet placed) comments: all comment-safe; only the last one may be an unterminated line comment
pub open spec fn free_ok(free: Seq<DocV>, unit: int) -> bool {
    forall|i: int| 0 <= i < free.len() ==> nest_ok(#[trigger] free[i], unit) && t_safe(free[i]) && (i < free.len() - 1 ==> !t_may_open(free[i]))
}
pub open spec fn free_pending(free: Seq<DocV>) -> bool { free.len() > 0 && t_may_open(free.last()) }
pub open spec fn last_after_closed(items: Seq<ItemV>) -> bool {
    items.len() > 0 ==> (match items.last() { ItemV::Commented { body, after } => (after matches Some(a) ==> !t_may_open(a)), _ => true })
}
pub proof fn lemma_intersperse_closed(s: Seq<DocV>, sep: DocV, unit: int)
    requires forall|i: int| 0 <= i < s.len() ==> doc_closed(#[trigger] s[i], unit), doc_closed(sep, unit),
    ensures doc_closed(intersperse_doc(s, sep), unit),
    decreases s.len(),
{
    reveal_with_fuel(tr, 4); reveal_with_fuel(nest_ok, 4); reveal_with_fuel(intersperse_doc, 2);
    if s.len() > 1 {
        assert forall|i: int| 0 <= i < s.drop_last().len() implies doc_closed(#[trigger] s.drop_last()[i], unit) by { assert(s.drop_last()[i] == s[i]); }
        lemma_intersperse_closed(s.drop_last(), sep, unit);
        assert(doc_closed(s.last(), unit));
    } else if s.len() == 1 { assert(doc_closed(s[0], unit)); }
}
/// interspersing free comments with a blank: safe, and open exactly if the last one is
pub proof fn lemma_intersperse_free(s: Seq<DocV>, unit: int)
    requires free_ok(s, unit),
    ensures
        nest_ok(intersperse_doc(s, sp()), unit), t_safe(intersperse_doc(s, sp())),
        t_may_open(intersperse_doc(s, sp())) ==> free_pending(s),
    decreases s.len(),
{
    reveal_with_fuel(tr, 4); reveal_with_fuel(nest_ok, 4); reveal_with_fuel(intersperse_doc, 2);
    if s.len() > 1 {
        let p = s.drop_last();
        assert forall|i: int| 0 <= i < p.len() implies nest_ok(#[trigger] p[i], unit) && t_safe(p[i]) && !t_may_open(p[i]) by { assert(p[i] == s[i]); }
        assert(free_ok(p, unit));
        lemma_intersperse_free(p, unit);
        assert(!free_pending(p)) by { assert(p.last() == s[s.len() - 2]); }
        assert(nest_ok(s.last(), unit) && t_safe(s.last()));
    } else if s.len() == 1 { assert(nest_ok(s[0], unit) && t_safe(s[0])); }
}
