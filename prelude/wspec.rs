// ---- prelude/wspec.rs : W -- the significant words of a syntax tree (C01 / C06: nothing added, dropped, duplicated, reordered) ----
/// node kinds that are never leaves (typst-syntax inner nodes); every other kind is a token
pub open spec fn is_inner_kind(k: SyntaxKind) -> bool {
    matches!(k, SyntaxKind::Markup | SyntaxKind::Strong | SyntaxKind::Emph | SyntaxKind::Raw | SyntaxKind::Ref | SyntaxKind::Heading | SyntaxKind::ListItem
        | SyntaxKind::EnumItem | SyntaxKind::TermItem | SyntaxKind::Equation | SyntaxKind::Math | SyntaxKind::MathDelimited | SyntaxKind::MathAttach
        | SyntaxKind::MathPrimes | SyntaxKind::MathFrac | SyntaxKind::MathRoot | SyntaxKind::CodeBlock | SyntaxKind::ContentBlock | SyntaxKind::Parenthesized
        | SyntaxKind::Array | SyntaxKind::Dict | SyntaxKind::Named | SyntaxKind::Keyed | SyntaxKind::Unary | SyntaxKind::Binary | SyntaxKind::FieldAccess
        | SyntaxKind::FuncCall | SyntaxKind::Args | SyntaxKind::Spread | SyntaxKind::Closure | SyntaxKind::Params | SyntaxKind::LetBinding | SyntaxKind::SetRule
        | SyntaxKind::ShowRule | SyntaxKind::Contextual | SyntaxKind::Conditional | SyntaxKind::WhileLoop | SyntaxKind::ForLoop | SyntaxKind::ModuleImport
        | SyntaxKind::ImportItems | SyntaxKind::ImportItemPath | SyntaxKind::RenamedImportItem | SyntaxKind::ModuleInclude | SyntaxKind::LoopBreak
        | SyntaxKind::LoopContinue | SyntaxKind::FuncReturn | SyntaxKind::Destructuring | SyntaxKind::DestructAssignment | SyntaxKind::Code)
}
/// the words of a token: its text, except whitespace and optional punctuation (the same normalisation as on the document side)
pub open spec fn leaf_words(n: &SyntaxNode) -> Seq<Seq<char>> {
    if is_ws_kind(n.kind_s()) { Seq::empty() } else { word_of(n.text_s()) }
}
/// the significant words below a node, in source order (uninterpreted; defined by `pf_sig`)
pub uninterp spec fn sig_leaves(n: &SyntaxNode) -> Seq<Seq<char>>;
pub open spec fn sig_concat(s: Seq<&SyntaxNode>) -> Seq<Seq<char>> decreases s.len() {
    if s.len() == 0 { Seq::empty() } else { sig_concat(s.drop_last()) + sig_leaves(s.last()) }
}
/// DEFINITION of sig_leaves (recursion over the opaque tree cannot be written as a spec function), plus PF8: tokens are leaves,
/// inner nodes carry no text of their own, a leaf's full text is its text
#[verifier::external_body]
pub proof fn pf_sig(n: &SyntaxNode)
    requires tree_wf(n),
    ensures
        !is_inner_kind(n.kind_s()) ==> n.children_s().len() == 0 && sig_leaves(n) == leaf_words(n) && n.full_text_s() == n.text_s(),
        is_inner_kind(n.kind_s()) ==> sig_leaves(n) == sig_concat(n.children_s()) && n.text_s().len() == 0,
{}
/// PF9: tokens with a fixed spelling
pub open spec fn fixed_text(k: SyntaxKind) -> Option<Seq<char>> {
    if k == SyntaxKind::Eq { Some("="@) } else if k == SyntaxKind::Colon { Some(":"@) } else if k == SyntaxKind::Dots { Some(".."@) }
    else if k == SyntaxKind::Arrow { Some("=>"@) } else if k == SyntaxKind::Star { Some("*"@) } else if k == SyntaxKind::Dot { Some("."@) }
    else if k == SyntaxKind::Hash { Some("#"@) } else if k == SyntaxKind::Comma { Some(","@) } else if k == SyntaxKind::Semicolon { Some(";"@) }
    else if k == SyntaxKind::Underscore { Some("_"@) } else if k == SyntaxKind::Dollar { Some("$"@) }
    else if k == SyntaxKind::LeftParen { Some("("@) } else if k == SyntaxKind::RightParen { Some(")"@) }
    else if k == SyntaxKind::LeftBrace { Some("{"@) } else if k == SyntaxKind::RightBrace { Some("}"@) }
    else if k == SyntaxKind::LeftBracket { Some("["@) } else if k == SyntaxKind::RightBracket { Some("]"@) }
    else { Option::None }
}
#[verifier::external_body]
pub proof fn pf_token_text(n: &SyntaxNode)
    requires tree_wf(n),
    ensures
        fixed_text(n.kind_s()) matches Some(t) ==> n.text_s() == t,
{}
/// no `@typstyle off` mark at or below the node (with marks, the marked subtree is emitted verbatim: C07, not W)
pub uninterp spec fn unmarked(store: AttrStore, n: &SyntaxNode) -> bool;
#[verifier::external_body]
pub proof fn pf_unmarked(store: AttrStore, n: &SyntaxNode)
    ensures unmarked(store, n) ==> !store.disabled_s(n.span_s()) && (forall|j: int| 0 <= j < n.children_s().len() ==> unmarked(store, #[trigger] n.children_s()[j])),
{}
pub open spec fn all_unmarked(store: AttrStore, s: Seq<&SyntaxNode>) -> bool { forall|j: int| 0 <= j < s.len() ==> unmarked(store, #[trigger] s[j]) }

pub proof fn lemma_sig_concat_push(s: Seq<&SyntaxNode>, n: &SyntaxNode)
    ensures sig_concat(s.push(n)) == sig_concat(s) + sig_leaves(n),
{
    reveal_with_fuel(sig_concat, 2);
    assert(s.push(n).drop_last() =~= s);
}
pub proof fn lemma_sig_concat_append(a: Seq<&SyntaxNode>, b: Seq<&SyntaxNode>)
    ensures sig_concat(a + b) =~= sig_concat(a) + sig_concat(b),
    decreases b.len(),
{
    reveal_with_fuel(sig_concat, 2);
    if b.len() == 0 { assert(a + b =~= a); }
    else {
        assert((a + b).drop_last() =~= a + b.drop_last());
        assert((a + b).last() == b.last());
        lemma_sig_concat_append(a, b.drop_last());
    }
}
pub proof fn lemma_sig_concat_step(s: Seq<&SyntaxNode>, k: int)
    requires 0 <= k < s.len(),
    ensures sig_concat(s.subrange(0, k + 1)) == sig_concat(s.subrange(0, k)) + sig_leaves(s[k]),
{
    assert(s.subrange(0, k + 1) =~= s.subrange(0, k).push(s[k]));
    lemma_sig_concat_push(s.subrange(0, k), s[k]);
}

/// PF11: `break` / `continue` statements consist of their keyword
#[verifier::external_body]
pub proof fn pf_loop_kw(n: &SyntaxNode)
    requires tree_wf(n),
    ensures
        n.kind_s() == SyntaxKind::LoopBreak ==> sig_leaves(n) == seq!["break"@],
        n.kind_s() == SyntaxKind::LoopContinue ==> sig_leaves(n) == seq!["continue"@],
{}

// ---- function calls: callee, then the argument list (parenthesized part, then trailing content blocks) ----
/// PF12: a function call consists of exactly its callee and its argument list
#[verifier::external_body]
pub proof fn pf_func_call(n: ast::FuncCall<'_>)
    requires n.wf(), tree_wf(n.0),
    ensures n.0.children_s().len() == 2, n.0.children_s()[0] == n.callee_s(), n.0.children_s()[1] == n.args_s(),
{}
/// PF15: a content block / strong / emphasis consists of its two markers around exactly one Markup child
pub open spec fn container_open(k: SyntaxKind) -> SyntaxKind {
    if k == SyntaxKind::ContentBlock { SyntaxKind::LeftBracket } else if k == SyntaxKind::Strong { SyntaxKind::Star } else { SyntaxKind::Underscore }
}
pub open spec fn container_close(k: SyntaxKind) -> SyntaxKind {
    if k == SyntaxKind::ContentBlock { SyntaxKind::RightBracket } else if k == SyntaxKind::Strong { SyntaxKind::Star } else { SyntaxKind::Underscore }
}
#[verifier::external_body]
pub proof fn pf_markup_container(n: &SyntaxNode)
    requires tree_wf(n), n.kind_s() == SyntaxKind::ContentBlock || n.kind_s() == SyntaxKind::Strong || n.kind_s() == SyntaxKind::Emph,
    ensures n.children_s().len() == 3, n.children_s()[0].kind_s() == container_open(n.kind_s()), n.children_s()[1].kind_s() == SyntaxKind::Markup,
        n.children_s()[2].kind_s() == container_close(n.kind_s()),
{}
/// index one past the closing parenthesis of an argument list (its length if there is none)
pub open spec fn after_rparen(ch: Seq<&SyntaxNode>) -> int decreases ch.len() {
    if ch.len() == 0 { 0 } else if ch[0].kind_s() == SyntaxKind::RightParen { 1 } else { 1 + after_rparen(ch.subrange(1, ch.len() as int)) }
}
pub proof fn lemma_after_rparen_bounds(ch: Seq<&SyntaxNode>)
    ensures 0 <= after_rparen(ch) <= ch.len(),
    decreases ch.len(),
{
    reveal_with_fuel(after_rparen, 2);
    if ch.len() > 0 && ch[0].kind_s() != SyntaxKind::RightParen { lemma_after_rparen_bounds(ch.subrange(1, ch.len() as int)); }
}
/// the closing parenthesis is the first one: with no RightParen among the first n children and one at n, the parenthesized part
/// is the first n + 1 children (all of them when there is none at all)
pub proof fn lemma_after_rparen_first(ch: Seq<&SyntaxNode>, n: int)
    requires 0 <= n <= ch.len(), forall|k: int| 0 <= k < n ==> (#[trigger] ch[k]).kind_s() != SyntaxKind::RightParen,
        n < ch.len() ==> ch[n].kind_s() == SyntaxKind::RightParen,
    ensures after_rparen(ch) == (if n < ch.len() { n + 1 } else { n }),
    decreases n,
{
    reveal_with_fuel(after_rparen, 2);
    if n > 0 {
        let t = ch.subrange(1, ch.len() as int);
        assert(ch[0].kind_s() != SyntaxKind::RightParen);
        assert forall|k: int| 0 <= k < n - 1 implies (#[trigger] t[k]).kind_s() != SyntaxKind::RightParen by { assert(t[k] == ch[k + 1]); }
        if n - 1 < t.len() { assert(t[n - 1] == ch[n]); }
        lemma_after_rparen_first(t, n - 1);
    }
}
pub open spec fn has_paren_s(ch: Seq<&SyntaxNode>) -> bool { ch.len() > 0 && ch[0].kind_s() == SyntaxKind::LeftParen }
/// the children up to and including the closing parenthesis
pub open spec fn paren_part<'a>(ch: Seq<&'a SyntaxNode>) -> Seq<&'a SyntaxNode> { ch.subrange(0, after_rparen(ch)) }
/// the children after the closing parenthesis (all of them when there is no parenthesized part): trailing content blocks
pub open spec fn trailing_part<'a>(ch: Seq<&'a SyntaxNode>) -> Seq<&'a SyntaxNode> { if has_paren_s(ch) { ch.subrange(after_rparen(ch), ch.len() as int) } else { ch } }
pub proof fn lemma_sig_concat_split(s: Seq<&SyntaxNode>, k: int)
    requires 0 <= k <= s.len(),
    ensures sig_concat(s) =~= sig_concat(s.subrange(0, k)) + sig_concat(s.subrange(k, s.len() as int)),
    decreases s.len() - k,
{
    reveal_with_fuel(sig_concat, 2);
    if k == s.len() {
        assert(s.subrange(0, k) =~= s);
        assert(s.subrange(k, s.len() as int) =~= Seq::<&SyntaxNode>::empty());
    } else {
        lemma_sig_concat_split(s, k + 1);
        lemma_sig_concat_step(s, k);
        let t = s.subrange(k, s.len() as int);
        let t1 = s.subrange(k + 1, s.len() as int);
        // sig_concat(t) == sig_leaves(s[k]) + sig_concat(t1)
        lemma_sig_concat_first(t);
        assert(t.subrange(1, t.len() as int) =~= t1);
    }
}
pub proof fn lemma_sig_concat_first(s: Seq<&SyntaxNode>)
    requires s.len() > 0,
    ensures sig_concat(s) =~= sig_leaves(s[0]) + sig_concat(s.subrange(1, s.len() as int)),
    decreases s.len(),
{
    reveal_with_fuel(sig_concat, 2);
    if s.len() == 1 {
        assert(s.drop_last() =~= Seq::<&SyntaxNode>::empty());
        assert(s.subrange(1, 1) =~= Seq::<&SyntaxNode>::empty());
    } else {
        lemma_sig_concat_first(s.drop_last());
        assert(s.drop_last().subrange(1, s.len() - 1) =~= s.subrange(1, s.len() as int).drop_last());
        assert(s.subrange(1, s.len() as int).last() == s.last());
        assert(s.drop_last()[0] == s[0]);
    }
}
/// the children in front of the closing parenthesis carry the words of the whole parenthesized part (`)` is no word)
pub proof fn lemma_paren_prefix_words(node: &SyntaxNode, pre: Seq<&SyntaxNode>)
    requires tree_wf(node), pre.is_prefix_of(node.children_s()),
        forall|k: int| 0 <= k < pre.len() ==> (#[trigger] pre[k]).kind_s() != SyntaxKind::RightParen,
        pre.len() < node.children_s().len() ==> node.children_s()[pre.len() as int].kind_s() == SyntaxKind::RightParen,
    ensures sig_concat(pre) == sig_concat(paren_part(node.children_s())),
{
    let ch = node.children_s();
    let n = pre.len() as int;
    pf_children(node);
    reveal_strlit(")");
    assert(pre =~= ch.subrange(0, n));
    assert forall|k: int| 0 <= k < n implies (#[trigger] ch[k]).kind_s() != SyntaxKind::RightParen by { assert(ch[k] == pre[k]); }
    lemma_after_rparen_first(ch, n);
    if n < ch.len() {
        assert(paren_part(ch) =~= pre.push(ch[n]));
        lemma_sig_concat_push(pre, ch[n]);
        pf_sig(ch[n]); pf_token_text(ch[n]);
        assert(sig_leaves(ch[n]) =~= Seq::<Seq<char>>::empty());
        assert(sig_concat(pre) + sig_leaves(ch[n]) =~= sig_concat(pre));
    } else {
        assert(paren_part(ch) =~= pre);
    }
}
pub open spec fn paren_or_space(k: SyntaxKind) -> bool { k == SyntaxKind::LeftParen || k == SyntaxKind::RightParen || k == SyntaxKind::Space }
pub proof fn lemma_sig_concat_wordless(s: Seq<&SyntaxNode>)
    requires forall|k: int| 0 <= k < s.len() ==> sig_leaves(#[trigger] s[k]).len() == 0,
    ensures sig_concat(s) =~= Seq::<Seq<char>>::empty(),
    decreases s.len(),
{
    reveal_with_fuel(sig_concat, 2);
    if s.len() > 0 {
        assert forall|k: int| 0 <= k < s.drop_last().len() implies sig_leaves(#[trigger] s.drop_last()[k]).len() == 0 by { assert(s.drop_last()[k] == s[k]); }
        lemma_sig_concat_wordless(s.drop_last());
        assert(sig_leaves(s.last()) =~= Seq::<Seq<char>>::empty());
    }
}
/// wordless children at both edges do not contribute
pub proof fn lemma_sig_concat_edges(ch: Seq<&SyntaxNode>, a: int, b: int)
    requires 0 <= a <= b <= ch.len(), forall|k: int| 0 <= k < ch.len() && !(a <= k < b) ==> sig_leaves(#[trigger] ch[k]).len() == 0,
    ensures sig_concat(ch) =~= sig_concat(ch.subrange(a, b)),
{
    let n = ch.len() as int;
    lemma_sig_concat_split(ch, a);
    let t = ch.subrange(a, n);
    lemma_sig_concat_split(t, b - a);
    assert(t.subrange(0, b - a) =~= ch.subrange(a, b));
    let l = ch.subrange(0, a);
    let r = t.subrange(b - a, t.len() as int);
    assert forall|k: int| 0 <= k < l.len() implies sig_leaves(#[trigger] l[k]).len() == 0 by { assert(l[k] == ch[k]); }
    assert forall|k: int| 0 <= k < r.len() implies sig_leaves(#[trigger] r[k]).len() == 0 by { assert(r[k] == ch[b + k]); }
    lemma_sig_concat_wordless(l); lemma_sig_concat_wordless(r);
}
/// only the children at the three given positions carry words
pub proof fn lemma_sig_concat_three(ch: Seq<&SyntaxNode>, a: int, b: int, c: int)
    requires 0 <= a < b < c < ch.len(), forall|k: int| 0 <= k < ch.len() && k != a && k != b && k != c ==> sig_leaves(#[trigger] ch[k]).len() == 0,
    ensures sig_concat(ch) =~= sig_leaves(ch[a]) + sig_leaves(ch[b]) + sig_leaves(ch[c]),
{
    let n = ch.len() as int;
    // [0, b) has only a; [b, n) has b and c
    lemma_sig_concat_split(ch, b);
    let l = ch.subrange(0, b);
    let r = ch.subrange(b, n);
    assert forall|k: int| 0 <= k < l.len() && !(a <= k < a + 1) implies sig_leaves(#[trigger] l[k]).len() == 0 by { assert(l[k] == ch[k]); }
    lemma_sig_concat_edges(l, a, a + 1);
    assert(l.subrange(a, a + 1) =~= seq![ch[a]]);
    reveal_with_fuel(sig_concat, 2);
    assert(seq![ch[a]].drop_last() =~= Seq::<&SyntaxNode>::empty());
    assert(sig_concat(seq![ch[a]]) =~= sig_leaves(ch[a]));
    // right part: split at c - b
    lemma_sig_concat_split(r, c - b);
    let rl = r.subrange(0, c - b);
    let rr = r.subrange(c - b, r.len() as int);
    assert forall|k: int| 0 <= k < rl.len() && !(0 <= k < 1) implies sig_leaves(#[trigger] rl[k]).len() == 0 by { assert(rl[k] == ch[b + k]); }
    lemma_sig_concat_edges(rl, 0, 1);
    assert(rl.subrange(0, 1) =~= seq![ch[b]]);
    assert(seq![ch[b]].drop_last() =~= Seq::<&SyntaxNode>::empty());
    assert(sig_concat(seq![ch[b]]) =~= sig_leaves(ch[b]));
    assert forall|k: int| 0 <= k < rr.len() && !(0 <= k < 1) implies sig_leaves(#[trigger] rr[k]).len() == 0 by { assert(rr[k] == ch[c + k]); }
    lemma_sig_concat_edges(rr, 0, 1);
    assert(rr.subrange(0, 1) =~= seq![ch[c]]);
    assert(seq![ch[c]].drop_last() =~= Seq::<&SyntaxNode>::empty());
    assert(sig_concat(seq![ch[c]]) =~= sig_leaves(ch[c]));
}
/// PF13: below a Math or Markup node there are only expressions and tokens
#[verifier::external_body]
pub proof fn pf_math_children(n: &SyntaxNode)
    requires tree_wf(n), n.kind_s() == SyntaxKind::Math || n.kind_s() == SyntaxKind::Markup,
    ensures forall|j: int| 0 <= j < n.children_s().len() ==> ast::expr_kind((#[trigger] n.children_s()[j]).kind_s()) || !is_inner_kind(n.children_s()[j].kind_s()),
{}

// ---- words of the flattened markup representation (prelude/markupspec.rs) ----
pub open spec fn tok_words(t: MTok) -> Seq<Seq<char>> { match t { MTok::Node(c) => sig_leaves(c), MTok::Brk(_) => Seq::empty() } }
pub open spec fn toks_words(ts: Seq<MTok>) -> Seq<Seq<char>> decreases ts.len() {
    if ts.len() == 0 { Seq::empty() } else { toks_words(ts.drop_last()) + tok_words(ts.last()) }
}
pub proof fn lemma_toks_words_push(ts: Seq<MTok>, t: MTok)
    ensures toks_words(ts.push(t)) == toks_words(ts) + tok_words(t),
{
    reveal_with_fuel(toks_words, 2);
    assert(ts.push(t).drop_last() =~= ts);
}
pub proof fn lemma_toks_words_concat(a: Seq<MTok>, b: Seq<MTok>)
    ensures toks_words(a + b) =~= toks_words(a) + toks_words(b),
    decreases b.len(),
{
    reveal_with_fuel(toks_words, 2);
    if b.len() == 0 { assert(a + b =~= a); }
    else {
        assert((a + b).drop_last() =~= a + b.drop_last());
        assert((a + b).last() == b.last());
        lemma_toks_words_concat(a, b.drop_last());
    }
}
pub open spec fn ws_wordless(s: Seq<&SyntaxNode>) -> bool { forall|j: int| 0 <= j < s.len() && is_ws_kind((#[trigger] s[j]).kind_s()) ==> sig_leaves(s[j]).len() == 0 }
pub proof fn lemma_toks_of_words(s: Seq<&SyntaxNode>)
    requires ws_wordless(s),
    ensures toks_words(toks_of(s)) =~= sig_concat(s),
    decreases s.len(),
{
    reveal_with_fuel(toks_of, 2); reveal_with_fuel(sig_concat, 2); reveal_with_fuel(toks_words, 3);
    if s.len() > 0 {
        let p = s.drop_last();
        assert forall|j: int| 0 <= j < p.len() && is_ws_kind((#[trigger] p[j]).kind_s()) implies sig_leaves(p[j]).len() == 0 by { assert(p[j] == s[j]); }
        lemma_toks_of_words(p);
        lemma_toks_words_concat(toks_of(p), child_toks(s.last()));
        let c = s.last();
        if is_break_child(c) {
            assert(is_ws_kind(c.kind_s()));
            assert(sig_leaves(c) =~= Seq::<Seq<char>>::empty());
            assert(toks_words(child_toks(c)) =~= Seq::<Seq<char>>::empty());
        } else {
            assert(child_toks(c) =~= seq![MTok::Node(c)]);
            assert(seq![MTok::Node(c)].drop_last() =~= Seq::<MTok>::empty());
            assert(toks_words(child_toks(c)) =~= sig_leaves(c));
        }
    }
}
/// C01 / C06: the flattened representation carries exactly the words of the markup's children
pub proof fn lemma_flat_words(ch: Seq<&SyntaxNode>)
    requires ws_wordless(ch),
    ensures toks_words(markup_flat(ch)) =~= sig_concat(ch),
{
    let lead = markup_lead(ch);
    let trail = markup_trail(ch);
    let n = ch.len() as int;
    let mid = markup_mid(ch);
    assert forall|j: int| 0 <= j < mid.len() && is_ws_kind((#[trigger] mid[j]).kind_s()) implies sig_leaves(mid[j]).len() == 0 by { assert(mid[j] == ch[lead + j]); }
    lemma_toks_of_words(mid);
    lemma_toks_words_concat(toks_of(mid), markup_tail(ch));
    reveal_with_fuel(toks_words, 3); reveal_with_fuel(sig_concat, 2);
    if markup_tail(ch).len() > 0 { assert(markup_tail(ch).drop_last() =~= Seq::<MTok>::empty()); }
    assert(toks_words(markup_tail(ch)) =~= Seq::<Seq<char>>::empty());
    // the edges carry no words
    lemma_sig_concat_split(ch, lead);
    lemma_sig_concat_split(ch.subrange(lead, n), n - trail - lead);
    assert(ch.subrange(lead, n).subrange(0, n - trail - lead) =~= mid);
    let a = ch.subrange(0, lead);
    let z = ch.subrange(lead, n).subrange(n - trail - lead, n - lead);
    if lead == 1 { assert(a.drop_last() =~= Seq::<&SyntaxNode>::empty()); assert(a.last() == ch[0]); assert(sig_concat(a) =~= Seq::<Seq<char>>::empty()); }
    else { assert(a =~= Seq::<&SyntaxNode>::empty()); }
    if trail == 1 { assert(z.drop_last() =~= Seq::<&SyntaxNode>::empty()); assert(z.last() == ch[n - 1]); assert(sig_concat(z) =~= Seq::<Seq<char>>::empty()); }
    else { assert(z =~= Seq::<&SyntaxNode>::empty()); }
}

/// the children of an argument list from its opening parenthesis up to (not including) the closing one: a contiguous run
pub uninterp spec fn paren_untyped_s<'a>(args: &'a SyntaxNode) -> Seq<&'a SyntaxNode>;

/// the document `convert_expr` yields is a function of the context it is given and of the node (C17; used to state that a producer
/// passes on the context the engine hands it -- e.g. code mode directly after a `#` -- instead of one captured from outside)
pub uninterp spec fn expr_doc_s(ctx: Context, n: &SyntaxNode) -> DocV;

/// PF14: a `#` is directly followed by the expression it introduces
#[verifier::opaque]
pub open spec fn hash_followed(ch: Seq<&SyntaxNode>) -> bool {
    forall|i: int, j: int| 0 <= i < ch.len() && j == i + 1 && (#[trigger] ch[i]).kind_s() == SyntaxKind::Hash ==> j < ch.len() && ast::expr_kind((#[trigger] ch[j]).kind_s())
}
#[verifier::external_body]
pub proof fn pf_hash_followed(n: &SyntaxNode)
    requires tree_wf(n),
    ensures hash_followed(n.children_s()), n.children_s().len() > 0 ==> n.children_s().last().kind_s() != SyntaxKind::Hash,
{}
pub proof fn lemma_hash_followed_at(ch: Seq<&SyntaxNode>, i: int)
    requires hash_followed(ch), 0 <= i < ch.len(), ch[i].kind_s() == SyntaxKind::Hash,
    ensures i + 1 < ch.len(), ast::expr_kind(ch[i + 1].kind_s()),
{ reveal(hash_followed); }
