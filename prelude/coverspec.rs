// ---- prelude/coverspec.rs : what range formatting must locate (C13) ----
pub open spec fn vp_min(a: int, b: int) -> int { if a <= b { a } else { b } }
/// the lexical mode is decided by the nearest enclosing Markup / CodeBlock / Equation node only
pub open spec fn ctx_mode(k: SyntaxKind, inherited: Mode) -> Mode {
    match k { SyntaxKind::Markup => Mode::Markup, SyntaxKind::CodeBlock => Mode::Code, SyntaxKind::Equation => Mode::Math, _ => inherited }
}
/// Markup, Expr or Pattern node
pub open spec fn is_mep(n: &SyntaxNode) -> bool { Markup::castable(n) || Expr::castable(n) || Pattern::castable(n) }

/// The first node in post-order below (or at) `n` that is a Markup/Expr/Pattern and covers [lo, hi): i.e. the minimal
/// covering node, paired with the lexical mode of its context.  Definitional unfolding below.
pub uninterp spec fn cover_sub(lo: int, hi: int, n: LinkedNode<'_>, mode: Mode) -> Option<(Span, Mode)>;
pub open spec fn cover_level(lo: int, hi: int, kids: Seq<LinkedNode<'_>>, j: int, mode: Mode) -> Option<(Span, Mode)>
    decreases kids.len() - j
{
    if j < 0 || j >= kids.len() { Option::None }
    else { match cover_sub(lo, hi, kids[j], mode) { Option::Some(r) => Option::Some(r), Option::None => cover_level(lo, hi, kids, j + 1, mode) } }
}
#[verifier::external_body]
pub proof fn axiom_cover_sub(lo: int, hi: int, n: LinkedNode<'_>, mode: Mode)
    ensures cover_sub(lo, hi, n, mode) == ({
        let m = ctx_mode(n.node_s().kind_s(), mode);
        match cover_level(lo, hi, n.children_v(), 0, m) {
            Option::Some(r) => Option::Some(r),
            Option::None => if n.start_s() <= lo && n.end_s() >= hi && is_mep(n.node_s()) { Option::Some((n.node_s().span_s(), m)) } else { Option::None },
        }
    }),
{}
/// whether parsing `text` yields a tree with syntax errors (typst_syntax::parse is not modelled)
pub uninterp spec fn parse_erroneous_s(text: Seq<char>) -> bool;
#[verifier::external_body]
pub proof fn axiom_parse_erroneous(text: Seq<char>)
    ensures forall|s: &Source| #[trigger] s.text_s()@ == text ==> s.root_s().erroneous_s() == parse_erroneous_s(text),
{}
