// ---- prelude/attrspec.rs : what the attribute pass must compute (C07), stated over the opaque tree ----
pub open spec fn is_comment_kind(k: SyntaxKind) -> bool { k == SyntaxKind::LineComment || k == SyntaxKind::BlockComment }
/// the text contains the substring "@typstyle off"
pub open spec fn contains_directive(s: Seq<char>) -> bool { contains_substr(s, "@typstyle off"@) }
pub open spec fn is_directive(n: &SyntaxNode) -> bool { is_comment_kind(n.kind_s()) && contains_directive(n.text_s()) }
/// whitespace and `#` between the directive and its target are ignored (property statement)
pub open spec fn skippable_kind(k: SyntaxKind) -> bool { k == SyntaxKind::Space || k == SyntaxKind::Hash }

/// The set of spans that must be format-disabled within the subtree of `node`: every directive comment, and
/// the first sibling after a directive that is neither whitespace, `#` nor a comment; marked nodes are not descended into.
pub uninterp spec fn marks_sub(node: &SyntaxNode) -> Set<Span>;
pub open spec fn marks_level(ch: Seq<&SyntaxNode>, j: int, pending: bool) -> Set<Span>
    decreases ch.len() - j
{
    if j < 0 || j >= ch.len() { Set::empty() }
    else {
        let c = ch[j];
        if is_comment_kind(c.kind_s()) {
            if contains_directive(c.text_s()) { marks_level(ch, j + 1, true).insert(c.span_s()) }
            else { marks_level(ch, j + 1, pending) }
        } else if pending && !skippable_kind(c.kind_s()) {
            marks_level(ch, j + 1, false).insert(c.span_s())
        } else {
            marks_sub(c).union(marks_level(ch, j + 1, pending))
        }
    }
}
/// definitional unfolding of `marks_sub` (the tree is finite, so this recursion is well founded)
#[verifier::external_body]
pub proof fn axiom_marks_sub(node: &SyntaxNode)
    ensures marks_sub(node) == marks_level(node.children_s(), 0, false),
{}

pub open spec fn has_comment_child(ch: Seq<&SyntaxNode>) -> bool { exists|j: int| 0 <= j < ch.len() && is_comment_kind((#[trigger] ch[j]).kind_s()) }
