// ---- prelude/strspec.rs : strings as character sequences plus UTF-8 byte offsets -------------
// `s@` is the character sequence (vstd); `s.spec_bytes()` the UTF-8 bytes (vstd; `s.len()` is its length).
// Character boundaries are defined exactly as Rust's `str::is_char_boundary` computes them.

/// Unicode White_Space, i.e. exactly `char::is_whitespace`.
pub open spec fn is_ws(c: char) -> bool {
    let u = c as u32;
    (0x09 <= u <= 0x0D) || u == 0x20 || u == 0x85 || u == 0xA0 || u == 0x1680 || (0x2000 <= u <= 0x200A)
        || u == 0x2028 || u == 0x2029 || u == 0x202F || u == 0x205F || u == 0x3000
}

/// Typst's `is_newline`: \n, VT, FF, \r, NEL, LS, PS.
pub open spec fn is_typst_newline(c: char) -> bool {
    let u = c as u32;
    u == 0x0A || u == 0x0B || u == 0x0C || u == 0x0D || u == 0x85 || u == 0x2028 || u == 0x2029
}

pub open spec fn is_cont_byte(b: u8) -> bool { 0x80 <= b < 0xC0 }

/// Rust's `str::is_char_boundary`, literally: 0 and len are boundaries, otherwise the byte is not a continuation byte.
pub open spec fn bnd(b: Seq<u8>, i: int) -> bool {
    i == 0 || i == b.len() || (0 < i < b.len() && !is_cont_byte(b[i]))
}

/// The character view of a string is a function of its bytes (UTF-8 decoding).
pub uninterp spec fn chars_of(b: Seq<u8>) -> Seq<char>;

/// C11: non-empty, ends with a line feed, nothing blank before any line feed.
pub open spec fn hygienic(r: Seq<char>) -> bool {
    &&& r.len() > 0
    &&& r.last() == '\n'
    &&& forall|i: int| 0 < i < r.len() && r[i] == '\n' ==> (#[trigger] r[i - 1]) == '\n' || !is_ws(r[i - 1])
}

pub open spec fn no_lf(s: Seq<char>) -> bool { forall|i: int| 0 <= i < s.len() ==> s[i] != '\n' }

/// some character of `s` is a Typst newline
pub open spec fn has_newline_s(s: Seq<char>) -> bool { exists|i: int| 0 <= i < s.len() && is_typst_newline(#[trigger] s[i]) }
/// the i-th character starts a line break the way Typst's lexer counts them (`\r\n` is one)
pub open spec fn newline_at(s: Seq<char>, i: int) -> bool {
    is_typst_newline(s[i]) && !(i >= 1 && s[i - 1] == '\r' && s[i] == '\n')
}
pub open spec fn count_newlines_s(s: Seq<char>) -> nat decreases s.len() {
    if s.len() == 0 { 0 } else { count_newlines_s(s.drop_last()) + (if newline_at(s, s.len() - 1) { 1nat } else { 0nat }) }
}
pub proof fn lemma_count_newlines_bound(s: Seq<char>)
    ensures count_newlines_s(s) <= s.len(), count_newlines_s(s) > 0 <==> has_newline_s(s),
    decreases s.len(),
{
    if s.len() > 0 {
        let p = s.drop_last();
        lemma_count_newlines_bound(p);
        if has_newline_s(p) { let i = choose|i: int| 0 <= i < p.len() && is_typst_newline(#[trigger] p[i]); assert(s[i] == p[i]); }
        if has_newline_s(s) && !has_newline_s(p) {
            let i = choose|i: int| 0 <= i < s.len() && is_typst_newline(#[trigger] s[i]);
            if i < p.len() { assert(p[i] == s[i]); }
            // the only newline is the last char; it cannot be the `\n` of a `\r\n` because `\r` is a newline too
            if s.len() >= 2 && s[s.len() - 2] == '\r' { assert(p[s.len() - 2] == '\r'); assert(is_typst_newline(p[s.len() - 2])); }
        }
        if newline_at(s, s.len() - 1) { assert(is_typst_newline(s[s.len() - 1])); }
    }
}

/// C10: no line of the rendered text that lies inside a string literal or raw block ends in a blank
/// (otherwise stripping trailing blanks would change the literal).  Deliberately uninterpreted: the post-processing
/// pass has no knowledge of literals, so its caller has to establish this -- and cannot (known finding C10-F1).
pub uninterp spec fn literal_lines_clean(rendered: Seq<char>) -> bool;
