"""Parser for the sidecar contract files (contracts/*.vc).

Format (line oriented; `#` at column 0 starts a comment line):

    @fn <repo-relative file> :: <item path>
    @serves C11 C05                # properties every obligation of this function serves (default tags)
    @ret res                       # name the return value: `-> T` becomes `-> (res: T)`
    @attr #[verifier::exec_allows_no_decreases_clause]
    @mutself                       # rule R1
    @cell NAME...                  # rule R29: a `let mut NAME` captured mutably by a closure becomes an untracked cell
    @sig
      requires
        - expr
      ensures
        - [label C11 C03] expr     # optional label and property tags for this clause
    @loop 0 [ghost it] [desugar iter|into_iter]
      invariant
        - expr
      decreases
        - expr
    @closure 0 [params "a: T, b: U"] ret "(r: R)"
      requires
        - expr
      ensures
        - expr
    @insert body-start | body-end | loop K start | loop K end | before "txt" [#n] | after "txt" [#n]
      free text (proof blocks); every `assert(` in it is an obligation
    @replace "old" => "new" [#n|all] [rule R2]
    @stubsig
      full hand-written signature for the external_body stub (assumption, listed in evidence)
    @candidates
      {"input": "...", "oracle": "..."}      # replay candidates, one JSON per line
    @end
"""
from __future__ import annotations
import re, json, shlex
from dataclasses import dataclass, field
from typing import Dict, List, Optional, Tuple


@dataclass
class Clause:
    kind: str          # requires / ensures / invariant / decreases / invariant_except_break / recommends
    expr: str
    label: str         # e.g. ensures.0 or user label
    tags: List[str]
    vc_file: str
    vc_line: int
    group: str = ''           # `[label grp:NAME ...]`: a unit may leave a group of clauses to another unit (`//@exclude-groups NAME`)
    assumed: bool = False     # `[label assumed Cxx]`: part of the contract callers may use, never proved at the definition (listed in evidence)


@dataclass
class ClauseBlock:
    clauses: List[Clause] = field(default_factory=list)

    def render(self, indent: str = '    ') -> List[Tuple[str, Optional[Clause]]]:
        """Returns list of (text, clause) pieces; keyword lines have clause None."""
        out = []
        last_kind = None
        for c in self.clauses:
            if c.kind != last_kind:
                out.append((indent + c.kind + '\n', None))
                last_kind = c.kind
            out.append((indent + '    ' + c.expr.strip() + ',\n', c))
        return out


@dataclass
class LoopSpec:
    ordinal: int
    ghost: Optional[str]
    desugar: Optional[str]
    block: ClauseBlock
    vc_line: int
    iterexpr: Optional[str] = None


@dataclass
class ClosureSpec:
    ordinal: int
    params: Optional[str]
    ret: Optional[str]
    block: ClauseBlock
    vc_line: int
    proof: str = ''
    bind: Optional[str] = None     # rule R30: the closure expression `C` becomes `{ let NAME = C; proof { after } NAME }`
    after: str = ''


@dataclass
class Hoist:
    anchor: str                    # text in front of which the `let`s are placed
    items: list                    # ('closure', ordinal, name) | ('expr', text, name)
    proof: str
    vc_line: int


@dataclass
class Insert:
    where: str         # body-start, body-end, loop-start, loop-end, before, after
    arg: object        # loop ordinal or (text, nth)
    text: str
    vc_file: str
    vc_line: int
    group: str = ''    # `@insert ... grp NAME`


@dataclass
class Replace:
    old: str
    new: str
    nth: object        # int | 'all' | None (exactly one)
    rule: str
    vc_line: int


@dataclass
class FnContract:
    file: str
    item: str
    vc_file: str
    vc_line: int
    serves: List[str] = field(default_factory=list)
    ret: Optional[str] = None
    attrs: List[str] = field(default_factory=list)
    mutself: bool = False
    cells: List[str] = field(default_factory=list)   # rule R29
    hoists: List[Hoist] = field(default_factory=list)   # rule R30: arguments bound to locals in front of the call statement
    inlines: List[str] = field(default_factory=list)   # rule R31: library combinators replaced by their definition (`unwrap_or_else`)
    opassigns: List[tuple] = field(default_factory=list)   # rule R32: (`|=`, method) compound assignment on a user type -> method call
    sig: ClauseBlock = field(default_factory=ClauseBlock)
    loops: Dict[int, LoopSpec] = field(default_factory=dict)
    closures: Dict[int, ClosureSpec] = field(default_factory=dict)
    inserts: List[Insert] = field(default_factory=list)
    replaces: List[Replace] = field(default_factory=list)
    stubsig: Optional[str] = None
    bodysig: bool = False      # the hand-written signature also replaces the real one when the body is verified (`impl Iterator` -> VpIter)
    candidates: List[dict] = field(default_factory=list)
    notes: List[str] = field(default_factory=list)

    @property
    def key(self):
        return (self.file, self.item)


class ContractError(Exception):
    pass


_KW = ('requires', 'ensures', 'invariant', 'decreases', 'invariant_except_break', 'recommends')


def _parse_clause_block(lines: List[Tuple[int, str]], vc_file: str, default_tags: List[str], prefix: str) -> ClauseBlock:
    blk = ClauseBlock()
    kind = None
    counters: Dict[str, int] = {}
    cur: Optional[Clause] = None
    for ln, raw in lines:
        s = raw.strip()
        if not s or s.startswith('//'):
            continue
        if s in _KW:
            kind = s
            cur = None
            continue
        if s.startswith('- '):
            if kind is None:
                raise ContractError('%s:%d: clause before keyword' % (vc_file, ln))
            body = s[2:].strip()
            label = None
            is_assumed = False
            grp = ''
            tags = list(default_tags)
            m = re.match(r'\[([^\]]*)\]\s*(.*)$', body)
            if m:
                toks = m.group(1).split()
                # only treat as a label bracket if all tokens look like labels/tags
                if toks and all(re.match(r'^[A-Za-z0-9_.:\-]+$', t) for t in toks):
                    body = m.group(2)
                    is_assumed = 'assumed' in toks
                    grp = next((t[4:] for t in toks if t.startswith('grp:')), '')
                    toks = [t for t in toks if t != 'assumed' and not t.startswith('grp:')]
                    ptags = [t for t in toks if re.match(r'^C\d\d$', t)]
                    names = [t for t in toks if not re.match(r'^C\d\d$', t)]
                    if ptags:
                        tags = ptags
                    if names:
                        label = names[0]
            k = counters.get(kind, 0)
            counters[kind] = k + 1
            lab = '%s%s.%s' % (prefix, kind, label if label else str(k))
            cur = Clause(kind, body, lab, tags, vc_file, ln, assumed=is_assumed, group=grp)
            blk.clauses.append(cur)
        else:
            if cur is None:
                raise ContractError('%s:%d: continuation without clause: %r' % (vc_file, ln, s))
            cur.expr += '\n            ' + s
    return blk


def _unq(s: str) -> str:
    s = s.strip()
    if len(s) >= 2 and s[0] == '"' and s[-1] == '"':
        return bytes(s[1:-1], 'utf-8').decode('unicode_escape') if '\\' in s else s[1:-1]
    return s


def _split_quoted(s: str) -> List[str]:
    """split on whitespace, keeping "..." groups (with \\" escapes) as single tokens including quotes"""
    out, i, n = [], 0, len(s)
    while i < n:
        if s[i].isspace():
            i += 1
            continue
        if s[i] == '"':
            j = i + 1
            while j < n and s[j] != '"':
                if s[j] == '\\':
                    j += 1
                j += 1
            out.append(s[i:j + 1])
            i = j + 1
        else:
            j = i
            while j < n and not s[j].isspace():
                j += 1
            out.append(s[i:j])
            i = j
    return out


def parse_vc(path: str, text: str) -> List[FnContract]:
    res: List[FnContract] = []
    cur: Optional[FnContract] = None
    section = None            # (name, header-args, [(ln, line)])
    lines = text.split('\n')

    def close_section():
        nonlocal section
        if section is None or cur is None:
            section = None
            return
        name, args, body, ln0 = section
        if name == 'sig':
            cur.sig = _parse_clause_block(body, path, cur.serves, '')
        elif name == 'loop':
            a = _split_quoted(args)
            k = int(a[0])
            ghost = desugar = iterexpr = None
            i = 1
            while i < len(a):
                if a[i] == 'ghost':
                    ghost = a[i + 1]
                    i += 2
                elif a[i] == 'iter':
                    iterexpr = _unq(a[i + 1])
                    i += 2
                elif a[i] == 'desugar':
                    desugar = a[i + 1]
                    i += 2
                else:
                    raise ContractError('%s:%d: bad @loop arg %r' % (path, ln0, a[i]))
            cur.loops[k] = LoopSpec(k, ghost, desugar, _parse_clause_block(body, path, cur.serves, 'loop%d.' % k), ln0, iterexpr)
        elif name == 'closure':
            a = _split_quoted(args)
            k = int(a[0])
            params = ret = bind = None
            i = 1
            while i < len(a):
                if a[i] == 'bind':
                    bind = _unq(a[i + 1])
                    i += 2
                elif a[i] == 'params':
                    params = _unq(a[i + 1])
                    i += 2
                elif a[i] == 'ret':
                    ret = _unq(a[i + 1])
                    i += 2
                else:
                    raise ContractError('%s:%d: bad @closure arg %r' % (path, ln0, a[i]))
            proof_lines = [l.split('proof:', 1)[1].strip() for _, l in body if l.strip().startswith('proof:')]
            after_lines = [l.split('after:', 1)[1].strip() for _, l in body if l.strip().startswith('after:')]
            body = [(ln, l) for ln, l in body if not l.strip().startswith(('proof:', 'after:'))]
            cur.closures[k] = ClosureSpec(k, params, ret, _parse_clause_block(body, path, cur.serves, 'closure%d.' % k), ln0,
                                          ' '.join(proof_lines), bind, ' '.join(after_lines))
        elif name == 'insert':
            a = _split_quoted(args)
            grp = ''
            if len(a) >= 2 and a[-2] == 'grp':
                grp = a[-1]
                a = a[:-2]
            n_before = len(cur.inserts)
            txt = '\n'.join(l for _, l in body) + '\n'
            if a[0] in ('body-start', 'body-end'):
                cur.inserts.append(Insert(a[0], None, txt, path, ln0))
            elif a[0] == 'loop':
                cur.inserts.append(Insert('loop-' + a[2], int(a[1]), txt, path, ln0))
            elif a[0] in ('before', 'after'):
                nth = None
                if len(a) > 2 and a[2].startswith('#'):
                    nth = int(a[2][1:])
                cur.inserts.append(Insert(a[0], (_unq(a[1]), nth), txt, path, ln0))
            else:
                raise ContractError('%s:%d: bad @insert %r' % (path, ln0, args))
            for ins_ in cur.inserts[n_before:]:
                ins_.group = grp
        elif name == 'hoist':
            a = _split_quoted(args)
            if len(a) < 2 or a[0] != 'before':
                raise ContractError('%s:%d: bad @hoist' % (path, ln0))
            items, prf = [], []
            for _, l in body:
                t = l.strip()
                if t.startswith('proof:'):
                    prf.append(t.split('proof:', 1)[1].strip())
                elif t.startswith('closure '):
                    w = t.split()
                    items.append(('closure', int(w[1]), w[3]))
                elif t.startswith('expr '):
                    q = _split_quoted(t[5:])
                    items.append(('expr', _unq(q[0]), q[2]))
                elif t:
                    raise ContractError('%s:%d: bad @hoist line %r' % (path, ln0, t))
            cur.hoists.append(Hoist(_unq(a[1]), items, ' '.join(prf), ln0))
        elif name == 'stubsig':
            cur.stubsig = '\n'.join(l for _, l in body).strip()
        elif name == 'candidates':
            for ln, l in body:
                if l.strip():
                    cur.candidates.append(json.loads(l))
        elif name == 'note':
            cur.notes.append(' '.join(l.strip() for _, l in body))
        section = None

    for i, raw in enumerate(lines, 1):
        if raw.startswith('#') and not raw.startswith('#['):
            continue
        if raw.startswith('@'):
            close_section()
            head, _, rest = raw.partition(' ')
            rest = rest.strip()
            if head == '@fn':
                if cur is not None:
                    raise ContractError('%s:%d: @fn inside @fn (missing @end)' % (path, i))
                f, _, item = rest.partition('::')
                cur = FnContract(f.strip(), item.strip(), path, i)
            elif cur is None:
                raise ContractError('%s:%d: directive outside @fn' % (path, i))
            elif head == '@end':
                res.append(cur)
                cur = None
            elif head == '@serves':
                cur.serves = rest.split()
            elif head == '@ret':
                cur.ret = rest
            elif head == '@attr':
                cur.attrs.append(rest)
            elif head == '@mutself':
                cur.mutself = True
            elif head == '@bodysig':
                cur.bodysig = True
            elif head == '@cell':
                cur.cells += rest.split()
            elif head == '@inline':
                cur.inlines += rest.split()
            elif head == '@opassign':
                op_, m_ = rest.split()
                cur.opassigns.append((op_, m_))
            elif head == '@replace':
                a = _split_quoted(rest)
                if len(a) < 3 or a[1] != '=>':
                    raise ContractError('%s:%d: bad @replace' % (path, i))
                nth = None
                rule = 'manual'
                j = 3
                while j < len(a):
                    if a[j].startswith('#'):
                        nth = int(a[j][1:])
                    elif a[j] == 'all':
                        nth = 'all'
                    elif a[j] == 'rule':
                        rule = a[j + 1]
                        j += 1
                    j += 1
                cur.replaces.append(Replace(_unq(a[0]), _unq(a[2]), nth, rule, i))
            elif head in ('@sig', '@loop', '@closure', '@insert', '@stubsig', '@candidates', '@note', '@hoist'):
                section = (head[1:], rest, [], i)
            else:
                raise ContractError('%s:%d: unknown directive %s' % (path, i, head))
        else:
            if section is not None:
                section[2].append((i, raw))
            elif raw.strip() and cur is not None:
                raise ContractError('%s:%d: stray text %r' % (path, i, raw))
    if cur is not None:
        raise ContractError('%s: missing @end for %s' % (path, cur.item))
    return res


def load_all(root: str) -> Dict[Tuple[str, str], FnContract]:
    import glob, os
    out: Dict[Tuple[str, str], FnContract] = {}
    for p in sorted(glob.glob(os.path.join(root, 'contracts', '**', '*.vc'), recursive=True)):
        rel = os.path.relpath(p, root)
        for c in parse_vc(rel, open(p).read()):
            if c.key in out:
                out[c.key] = _merge(out[c.key], c)
            else:
                out[c.key] = c
    return out


def _merge(a: FnContract, b: FnContract) -> FnContract:
    """Two blocks for one function (generated common bundle + hand-written proof annotations) are merged."""
    labels = {c.label for c in a.sig.clauses}
    for c in b.sig.clauses:
        if c.label in labels:
            raise ContractError('%s:%d: clause label %s defined twice for %s' % (c.vc_file, c.vc_line, c.label, a.item))
    # keep `requires` before `ensures`
    req = [c for c in a.sig.clauses + b.sig.clauses if c.kind == 'requires']
    oth = [c for c in a.sig.clauses + b.sig.clauses if c.kind != 'requires']
    # renumber anonymous labels to stay unique
    seen = {}
    for c in req + oth:
        if re.match(r'^(requires|ensures)\.\d+$', c.label):
            k = seen.get(c.kind, 0)
            seen[c.kind] = k + 1
            c.label = '%s.%d' % (c.kind, k)
    a.sig.clauses = req + oth
    a.serves = sorted(set(a.serves) | set(b.serves))
    a.ret = a.ret or b.ret
    a.attrs = a.attrs + [x for x in b.attrs if x not in a.attrs]
    a.mutself = a.mutself or b.mutself
    a.cells = a.cells + [x for x in b.cells if x not in a.cells]
    a.inlines = a.inlines + [x for x in b.inlines if x not in a.inlines]
    a.opassigns = a.opassigns + [x for x in b.opassigns if x not in a.opassigns]
    a.loops.update(b.loops)
    a.closures.update(b.closures)
    a.inserts += b.inserts
    a.hoists += b.hoists
    a.replaces += b.replaces
    a.stubsig = a.stubsig or b.stubsig
    a.bodysig = a.bodysig or b.bodysig
    a.candidates += b.candidates
    a.notes += b.notes
    return a
