#!/usr/bin/env python3
"""Regenerates /verif/MANIFEST.json from the table below (single source of truth for the interface)."""
import json, os

VERIF = os.path.dirname(os.path.dirname(os.path.abspath(__file__)))

TECH = 'Verus contracts on functions extracted verbatim from /repo (deductive, Z3)'

CHECKS = {
    'C11': dict(
        text='Full proof of the property as the postcondition of the last function applied: strip_trailing_whitespace '
             'ensures hygienic(result) for every input string, and format_source_inspect returns exactly its result.',
        note='Trusted: Verus/Z3; assumed contracts of str::lines (segments contain no \\n; non-empty input has a segment), '
             'str::trim_end (prefix, last char not Unicode White_Space), String::with_capacity/push/push_str; rustc semantics.',
        ref='DESIGN.md 5/C11', technique=TECH),
}

NOT_APPLICABLE = {
    'C02': 'Compiled-output equality is C01 composed with the external Typst evaluator/layouter; no contract on a function of '
           'this repository can mention compilation, so no obligation in reach can express or decide it (DESIGN.md 5/C02).',
    'C17': 'Quantifies over thread schedules and call histories; Kani has no threads and Verus needs its permission types on '
           'code that has no shared state to put an invariant on (DESIGN.md 5/C17).',
    'C18': 'A cost bound needs a cost model: a ghost counter would have to be threaded through ~80 mutually recursive functions '
           'that recurse through closures, which extraction may not add and Verus closures cannot capture (DESIGN.md 5/C18).',
}


def build():
    props = [json.loads(l)['id'] for l in open(os.path.join(VERIF, 'properties.jsonl'))]
    checks = []
    for pid in props:
        if pid not in CHECKS:
            continue
        c = CHECKS[pid]
        checks.append({
            'property_id': pid,
            'quick_cmd': 'bin/check %s --tier quick' % pid,
            'thorough_cmd': 'bin/check %s --tier thorough' % pid,
            'evidence_file': 'evidence/%s.json' % pid,
            'replay_cmd_template': 'bin/check %s --replay {path}' % pid,
            'engine': 'vp',
            'level_claimed': {'category': 'proof', 'text': c['text'], 'design_ref': c['ref']},
            'level_note': c['note'],
            'technique': c['technique'],
        })
    na = []
    for pid in props:
        if pid in CHECKS:
            continue
        na.append({'property_id': pid, 'reason': NOT_APPLICABLE.get(pid, 'not yet under contract in this revision of the framework; see DESIGN.md')})
    man = {
        'version': 1,
        'setup_cmd': 'bin/setup',
        'hooks': {
            'guard': 'none',
            'enable': 'no hooks: contracts live in /verif sidecars and are woven into the function text extracted from /repo on every run; '
                      'Kani harnesses include repo files by #[path]',
            'baseline_off_cmd': 'bin/pinned-suite /repo',
            'source_commits': [],
            'add_only': True,
        },
        'engines': [{'name': 'vp', 'path': 'vp/', 'serves_properties': sorted(CHECKS),
                     'kind_free_text': 'extractor + assembler + Verus runner + classifier (python3); Kani harness crate; replay crate'}],
        'checks': checks,
        'not_applicable': na,
        'notes': 'Exit codes of bin/check: 0 all obligations of the property discharged; 1 VIOLATION; 2 undecided (lost anchor, '
                 'front-end error, resource limit, vacuity guard) -- never an alarm.',
    }
    with open(os.path.join(VERIF, 'MANIFEST.json'), 'w') as f:
        json.dump(man, f, indent=1)
    return man


if __name__ == '__main__':
    m = build()
    print('claimed:', [c['property_id'] for c in m['checks']])
    print('not_applicable:', [c['property_id'] for c in m['not_applicable']])
