#!/usr/bin/env python3
"""Regenerates /verif/MANIFEST.json from the table below (single source of truth for the interface)."""
import json, os

VERIF = os.path.dirname(os.path.dirname(os.path.abspath(__file__)))

TECH = 'Verus contracts on functions extracted verbatim from /repo (deductive, Z3)'

CHECKS = {
    'C01': dict(
        text='Proof of per-function obligations (partial): W -- the significant words (tokens evaluation can see, and comments) of a node are carried by the document in the same order in every layout, nothing added, dropped, duplicated or reordered -- for the flow engine, 16 flow-based converters (named and keyed pairs included) and their wrappers, the leaf converters, the dispatchers convert_expr/convert_expr_impl/convert_pattern, func_call.rs (callee + parenthesized part [convert_parenthesized_args proved from the list engine] + trailing content blocks; convert_args_in_math proved from the flow engine, every `,` and `;` re-emitted), the list engine (items + free comments + pending `#` carry exactly the words of the children consumed; print_doc in all three fold styles emits delimiters + those words) and convert_array/destructuring/params/parenthesized_impl/parenthesized/code_block built on it, convert_field_access_plain, convert_binary, the chain engine (print_doc; process / process_resolved under the chain hypothesis) with convert_dot_chain, try_convert_dot_chain and convert_binary_chain for chains without `not in`, convert_math and the markup engine (line representation == children in order; one piece per entry); the mode/parenthesis guard G (exact shape of optional_paren; only self-delimited constructs go unprotected; bodies evaluated in continued-code mode; the code argument printers are never used in math; the items of a row of a 2-d math argument stay in math mode; binary-chain operator text comes from the operand itself); the paren-removal gate; the table reflow gate; S: a single list item keeps its separator in every layout (`(1,)`, `(a,)`) and the converters ask for it; exact spacing contract of the flow engine; exact Context/Mode helpers (also Kani, complete); exact newline recognition.',
        note="Partial: W is ASSUMED (clause `words_preserved assumed`, listed in evidence) for dict, equation, binary chains containing `not in`, try_convert_dot_chain_plain, table, import, raw, math_delimited, math primes, reference, convert_additional_args, convert_parenthesized_args_as_list, and for convert_closure / convert_for_loop (their look-ahead state sits behind an untracked cell, rule R29: proved in every state is only that whatever is emitted for a child carries exactly that child's words); context passing: unwrapped bodies keep the context they were given (exact postcondition over the uninterpreted expr_doc_s); the parser and the renderer are outside the contracts, so tree equivalence itself is never concluded. Known findings C01-F2..F5 are printed, not proved. Trusted: shims, parser facts PF0-PF18 (validated on the corpus in the thorough tier).",
        ref='DESIGN.md 5/C01', technique=TECH),
    'C04': dict(
        text='Proof of per-function obligations (partial): line-comment transformer safety T -- over every layout the renderer can choose, no text ever follows an unterminated `//` comment and every converter result ends outside a comment -- for the flow, list, chain and plain layout engines, the markup and math engines and every converter built on them; the optional-parenthesis guard G (exact shape of optional_paren; unprotected only for self-delimited constructs; body evaluated in continued-code mode, delimiters matching the mode).',
        note="Partial: the few functions still outside the verifier's reach (DESIGN 3: try_convert_dot_chain_plain, resolve_*_chain) are contract-only stubs; token fusion is covered only by the exact push_doc spacing contract (known findings C04-F2..F7 are of that kind). Trusted: parser facts (prelude/treefacts.rs; known exclusion: raw text lines starting with //), pretty shim, renderer only ever picks a layout in the join semantics of T.",
        ref='DESIGN.md 5/C04', technique=TECH),
    'C06': dict(
        text='Proof of per-function obligations (partial): W over words AND comments (so a comment keeps its order and its neighbouring words) for the functions listed under C01; T (no comment absorbs code, no code inside a comment) for all four layout engines and the markup/math engines; line comments re-emitted as Text(token text), block comments as aligned plain lines cut only by ASCII leading blanks; list attach/detach never reorders or loses a comment; chain items never drop a comment; the attribute pass flags every node with a comment child; has_linebreak/count_linebreaks recognise every Typst newline.',
        note='Partial: W is proved for the list engine and array/destructuring/params/parenthesized/argument lists, assumed for dict/equation/chain/table-based converters and import (listed in evidence). Known findings C06-F2 printed. Trusted: parser facts, shims.',
        ref='DESIGN.md 5/C06', technique=TECH),
    'C12': dict(
        text='Proof of per-function obligations (partial): N -- every Nest a function under contract builds has amount config.tab_spaces, and '
             'column alignment (Align) occurs only around plain comment lines; to_config maps --tab-width to tab_spaces; '
             'Config::with_tab_spaces changes only that field.',
        note='Partial: functions that are stubs in every unit are assumed; the ratio statement for wide widths needs the renderer (not modelled).',
        ref='DESIGN.md 5/C12', technique=TECH),
    'C05': dict(
        text='Proof, per function under contract, of panic-freedom (Verus safety obligations: overflow, bounds, unwrap, unreachable, '
             'str slicing on char boundaries, callee preconditions) for every input satisfying the stated tree facts, plus: '
             'format_source_inspect refuses iff the root is erroneous; format_with_width returns its input on refusal.',
        note='Partial w.r.t. the whole property: functions not (yet) under contract, recursion through closures (termination), stack/heap '
             'exhaustion and hangs inside the pretty renderer are not covered. Trusted: Verus/Z3, shims of typst-syntax/pretty/std '
             '(listed in evidence), rewrite rules R1-R24; Kani (thorough tier): bounded byte-level checks of trim_range, count_spaces_after_last_newline, has_linebreak/count_linebreaks (all valid UTF-8 strings of <= 3 bytes; labelled bounded, not counted as proved).',
        ref='DESIGN.md 5/C05', technique=TECH),
    'C07': dict(
        text='Proof: the attribute pass marks exactly the spans given by the declarative spec marks_sub (directive comments and the first '
             'sibling after a directive that is not whitespace, `#` or a comment; marked nodes are not descended into); '
             'is_format_disabled reads that mark; convert_expr / convert_pattern / convert_math / convert_code_block emit '
             'Text(full source text) when the node is marked; routing: every flow producer, list-item closure, item dispatcher '
             '(array item, dict item, param, destructuring item, arg), argument closure and the loop of convert_math hands a marked '
             'expression child to one of these entry points (clause marked_expression_is_emitted_verbatim).',
        note='Not covered: positions whose producer depends on untracked state (closure / for-loop heads, R29) and the markup body of a list item (known finding C07-F1). Trusted: FxHashMap '
             'entry/or_default shim, str::contains shim, typst-syntax tree model, definitional axiom of marks_sub.',
        ref='DESIGN.md 5/C07', technique=TECH),
    'C08': dict(
        text='Proof for the markup engine: collect_markup_repr -- the flattened line representation equals the children of the Markup node in order, with line-ending children as runs of n breaks (n = count of Typst newlines for a paragraph break, 1 for a line break), only one leading blank and one trailing whitespace token moved to the edges; a line is marked as prose iff it holds text/strong/emph/raw; no blank is invented at an edge next to plain content. convert_markup_impl -- exactly one piece per entry in order: blank -> blank, Text -> its full source text, tokens -> their own text, n breaks -> n mandatory breaks, embedded code converted with breaks suppressed on prose lines, only blank/break documents at the edges. Leaf converters exact; has_linebreak/count_linebreaks exact; get_fold_style never yields the never-fold style when breaks are suppressed.',
        note='Trusted: shims, parser facts (PF6: whitespace tokens are never adjacent; PF7: nested markup never ends in a line comment), the documents embedded code yields when breaks are suppressed are covered by the callee contracts only.',
        ref='DESIGN.md 5/C08', technique=TECH),
    'C09': dict(
        text='Proof for the math engine: convert_math emits exactly one piece per child in order (whitespace -> blank / mandatory break by '
             'its newline content, `#` and other tokens -> their own text, expressions -> convert_expr with breaks suppressed), nothing in '
             'between; convert_math_delimited keeps the whitespace token after the opening and before the closing delimiter as exactly a '
             'blank / mandatory break; convert_equation / convert_math_attach/frac/root verified for comment safety against the '
             'list/flow engines.',
        note='convert_args_in_math (verified with its body through rule R29): a line break in an argument list stays a line break, a blank '
             'around a separator never becomes one, every `,` and `;` is re-emitted, only parentheses and blanks are stripped at the '
             'edges; the code argument printers are never used in math mode. Partial: the spacing chosen by the flow engine between '
             'the operands of attach/frac/root is covered only by the exact push_doc contract. '
             'Trusted: shims, parser facts.',
        ref='DESIGN.md 5/C09', technique=TECH),
    'C10': dict(
        text='Proof for leaf emission (leaf converters return Text(token text)) and raw rebuild; the call-site precondition of the '
             'post-processing pass (no rendered line inside a literal ends in a blank) is a KNOWN FINDING (C10-F1).',
        note='Known finding C10-F1 is reported, not proved. Trusted: shims, renderer not modelled.',
        ref='DESIGN.md 5/C10', technique=TECH),
    'C11': dict(
        text='Full proof of the property as the postcondition of the last function applied: strip_trailing_whitespace ensures '
             'hygienic(result) for every input string, and format_source_inspect / format_source / format_content return exactly its result.',
        note='Trusted: Verus/Z3; assumed contracts of str::lines (segments contain no \\n; non-empty input has a segment), '
             'str::trim_end (prefix, last char not Unicode White_Space), String::with_capacity/push/push_str.',
        ref='DESIGN.md 5/C11', technique=TECH),
    'C13': dict(
        text='Proof of no-panic for every (start <= end) range on character boundaries incl. ranges past the end (trim_range and '
             'count_spaces_after_last_newline preconditions discharged at the call site), of the covering-node search against the '
             'declarative spec cover_sub (minimal Markup/Expr/Pattern node, lexical mode from Markup/CodeBlock/Equation ancestors only), '
             'and of refusal for erroneous covering nodes.',
        note='Out of reach: that splicing the result yields an equivalent tree (needs the parser). Trusted: LinkedNode/Source shims, '
             'str slicing shim with Rust\'s panic conditions, UTF-8 facts stated in shims/std_str.rs.',
        ref='DESIGN.md 5/C13', technique=TECH),
    'C14': dict(
        text='Proof of the safety half: every write (std::fs::write) and every print of text carries the precondition !check, discharged '
             'on every path of format_one / format_all; FormatStatus::bitor_assign is an OR; main maps (Err | Changed&&check) to failure; '
             'format_one status is Changed iff the content it read differs from its formatted form; erroneous input counts as unchanged; '
             'format_many (verified with its body, rules R31/R32): the accumulated status is Changed only if some named file differs and '
             'Unchanged only if none does (relative to what was read in this run); its error counter cannot overflow.',
        note='Out of reach: mtimes, sequences of invocations; that an I/O error in format_many yields Err is read, not stated. '
             'Trusted: environment shims (shims/cli.rs), clap conflicts_with, single argument vector the_args().',
        ref='DESIGN.md 5/C14', technique=TECH),
    'C15': dict(
        text='Proof of the safety half: what is written to a path is the library result for exactly what was read from that path, only if '
             'it differs, only for eligible entries (named on the command line, or walked regular *.typ entry not hidden), never in check '
             'mode; the walk filter accepts the root entry.',
        note='Out of reach: completeness (every eligible changed file IS written), mtimes; error isolation in format_many is proved only as "the loop calls format_one on every named file with its precondition". Trusted: '
             'walkdir/std::fs shims.',
        ref='DESIGN.md 5/C15', technique=TECH),
    'C16': dict(
        text='Proof: to_config is field-exact; Config::default/new are the documented defaults; every text-emitting call satisfies '
             'may_print (exactly the library result for the input read, or the input itself when erroneous; no added newline); '
             'format_with_width returns the input on refusal.',
        note='format_many is verified with its body (each named file goes through format_one with its precondition, in loop order); that the concatenated output is in argument order is the loop order and is not stated as a clause. Trusted: environment shims.',
        ref='DESIGN.md 5/C16', technique=TECH),
    'C19': dict(
        text='Proof: at the sort site of convert_import_items the items are only ever permuted, and keep their order unless the option is '
             'on, the import statement contains no comment at any depth (contains_comment, verified against its recursive definition; fix ba7a324) and the bound names are pairwise distinct; convert_import (verified with its body) hands the sort site the whole statement and exactly its items; check_import_name_duplication returns true iff the bound '
             'names (last path segment / name after `as`) are pairwise distinct; Config::default has the option off; to_config passes the flag.',
        note='Not covered: that nothing else in the output differs (the flag is read only at this site: a grep-level fact). Trusted: sort_by_key '
             'is a permutation (shim), HashSet insert shim, accessor shims for bound names.',
        ref='DESIGN.md 5/C19', technique=TECH),
}

NOT_APPLICABLE = {
    'C03': 'Idempotence relates two parser runs: every reproduction lemma ("the output reproduces the layout decision") needs the parser\'s '
           'behaviour on the OUTPUT text, which no contract in reach can mention; the only single-function piece (strip_trailing_whitespace is '
           'idempotent on its own output) follows from C11 and does not decide C03 (DESIGN.md 5/C03).',
    'C02': 'Compiled-output equality is C01 composed with the external Typst evaluator/layouter; no contract on a function of '
           'this repository can mention compilation, so no obligation in reach can express or decide it (DESIGN.md 5/C02).',
    'C17': 'Quantifies over thread schedules and call histories; Kani has no threads and Verus needs its permission types on '
           'code that has no shared state to put an invariant on (DESIGN.md 5/C17).',
    'C18': 'A cost bound needs a cost model: a ghost counter would have to be threaded through ~80 mutually recursive functions '
           'that recurse through closures, which extraction may not add and Verus closures cannot capture (DESIGN.md 5/C18).',
}


def build():
    props = [json.loads(l)['id'] for l in open(os.path.join(VERIF, 'properties.jsonl'))]
    checks = []
    for pid in props:
        if pid not in CHECKS:
            continue
        c = CHECKS[pid]
        checks.append({
            'property_id': pid,
            'quick_cmd': 'bin/check %s --tier quick' % pid,
            'thorough_cmd': 'bin/check %s --tier thorough' % pid,
            'evidence_file': 'evidence/%s.json' % pid,
            'replay_cmd_template': 'bin/check %s --replay {path}' % pid,
            'engine': 'vp',
            'level_claimed': {'category': 'proof', 'text': c['text'], 'design_ref': c['ref']},
            'level_note': c['note'],
            'technique': c['technique'],
        })
    na = []
    for pid in props:
        if pid in CHECKS:
            continue
        na.append({'property_id': pid, 'reason': NOT_APPLICABLE.get(pid, 'not yet under contract in this revision of the framework; see DESIGN.md')})
    man = {
        'version': 1,
        'setup_cmd': 'bin/setup',
        'hooks': {
            'guard': 'none',
            'enable': 'no hooks: contracts live in /verif sidecars and are woven into the function text extracted from /repo on every run; '
                      'Kani harnesses include repo files by #[path]',
            'baseline_off_cmd': 'bin/pinned-suite /repo',
            'source_commits': [],
            'add_only': True,
        },
        'engines': [{'name': 'vp', 'path': 'vp/', 'serves_properties': sorted(CHECKS),
                     'kind_free_text': 'extractor + assembler + Verus runner + classifier (python3); Kani harness crate; replay crate'}],
        'checks': checks,
        'not_applicable': na,
        'notes': 'Exit codes of bin/check: 0 all obligations of the property discharged; 1 VIOLATION; 2 undecided (lost anchor, '
                 'front-end error, resource limit, vacuity guard) -- never an alarm.',
    }
    with open(os.path.join(VERIF, 'MANIFEST.json'), 'w') as f:
        json.dump(man, f, indent=1)
    return man


if __name__ == '__main__':
    m = build()
    print('claimed:', [c['property_id'] for c in m['checks']])
    print('not_applicable:', [c['property_id'] for c in m['not_applicable']])
