"""Run Verus on assembled units, map diagnostics to named obligations, classify."""
from __future__ import annotations
import json, os, re, subprocess, time, hashlib
from concurrent.futures import ThreadPoolExecutor
from dataclasses import dataclass, field
from typing import Dict, List, Optional, Tuple

import assemble as asm
from contracts import load_all

VERIF = asm.VERIF
# (checks on a scratch copy of the sources -- bin/seed-matrix -- get their own scratch directory, so they can run concurrently)
BUILD = os.path.join(VERIF, 'build', 'run' if os.path.realpath(asm.REPO) == '/repo' else 'run-' + os.path.basename(os.path.realpath(asm.REPO)))

VERIFICATION_MSG = re.compile(
    r'^(postcondition not satisfied|precondition not satisfied|assertion failed|invariant not satisfied'
    r'|possible arithmetic underflow/overflow|possible division by zero|decreases not satisfied'
    r'|loop invariant not satisfied|unable to prove|possible bit shift underflow/overflow'
    r'|unreachable|possible truncation|recursive call|could not prove termination|index out of bounds'
    r'|possible negative|cannot show invariant|failed to (prove|satisfy)|termination|not all errors may have been reported'
    r'|constructed value may fail to meet its declared type invariant|possible overflow)', re.I)
RLIMIT_MSG = re.compile(r'(Resource limit \(rlimit\) exceeded|rlimit exceeded|solver timed out|Z3 timed out)', re.I)


@dataclass
class Failure:
    unit: str
    fn: str                   # file::item of the function whose proof failed
    obligation: str           # unit:fn#label
    tags: List[str]
    message: str
    repo_loc: Optional[str]   # file:line of the primary span when it is repo text
    clause: Optional[str]     # clause expression when known
    rendered: str


@dataclass
class UnitResult:
    unit: str
    path: str
    cmd: str
    status: str               # ok | failed | frontend | rlimit | lost-anchor | internal
    detail: str = ''
    failures: List[Failure] = field(default_factory=list)
    fn_ok: Dict[str, bool] = field(default_factory=dict)        # verus fn name -> success
    fn_ms: Dict[str, float] = field(default_factory=dict)
    verified: int = 0
    errors: int = 0
    smt_ms: float = 0.0
    wall_s: float = 0.0
    assembled: Optional[asm.Assembled] = None
    verus_version: str = ''
    raw_diags: List[dict] = field(default_factory=list)
    recoveries: List[str] = field(default_factory=list)   # R25-R27: what was left out / pulled in to get the changed code through the front end


def unit_serves(unit_path: str) -> List[str]:
    for line in open(unit_path):
        m = re.match(r'^\s*//@serves\s+(.*)$', line)
        if m:
            return m.group(1).split()
    return []


def unit_rlimit(unit_path: str, default: float) -> float:
    for line in open(unit_path):
        m = re.match(r'^\s*//@rlimit\s+(\d+)', line)
        if m:
            return max(default, float(m.group(1)))
    return default


def all_units() -> List[str]:
    import glob
    return sorted(glob.glob(os.path.join(VERIF, 'units', '*.unit')))


_TAG_RE = re.compile(r'//@tag\s+(.*)$')


def _tags_from_line(text_line: str) -> Tuple[List[str], Optional[str]]:
    m = _TAG_RE.search(text_line)
    if not m:
        return [], None
    toks = m.group(1).split()
    tags = [t for t in toks if re.match(r'^C\d\d$', t)]
    names = [t for t in toks if not re.match(r'^C\d\d$', t)]
    return tags, (names[0] if names else None)


def run_verus(path: str, rlimit: float, seed: int, threads: int, extra: List[str] = ()) -> Tuple[int, str, str, str]:
    cmd = ['verus', os.path.basename(path), '--output-json', '--time', '--error-format=json',
           '--multiple-errors', '20', '--rlimit', str(rlimit), '--num-threads', str(threads)]
    if seed:
        cmd += ['--smt-option', 'smt.random_seed=%d' % seed]
    cmd += list(extra)
    p = subprocess.run(cmd, cwd=os.path.dirname(path), capture_output=True, text=True)
    return p.returncode, p.stdout, p.stderr, ' '.join(cmd)


def verify_unit(unit_path: str, contracts, canary: bool = False, rlimit: float = 10, seed: int = 0,
                threads: int = 4) -> UnitResult:
    unit = os.path.splitext(os.path.basename(unit_path))[0]
    t0 = time.time()
    outdir = os.path.join(BUILD, unit)
    os.makedirs(outdir, exist_ok=True)
    fname = os.path.join(outdir, unit + ('_canary' if canary else '') + '.rs')
    drop_clauses: set = set()
    drop_inserts: set = set()
    extras: List[Tuple[str, str, str]] = []
    recoveries: List[str] = []
    base_sha = baseline_fn_sha()
    nodecr: set = set()
    for _round in range(8):
        asm.set_drops(drop_clauses, drop_inserts)
        asm.set_no_decreases(nodecr)
        try:
            a = asm.assemble(unit_path, contracts, canary=canary, extras=extras)
        except asm.LostAnchor as e:
            return UnitResult(unit, fname, '', 'lost-anchor', str(e), wall_s=time.time() - t0)
        finally:
            asm.set_drops(set(), set())
            asm.set_no_decreases(set())
        with open(fname, 'w') as f:
            f.write(a.text)
        rc, out, err, cmd = run_verus(fname, rlimit, seed, threads)
        new = _recover(a, err, os.path.basename(fname), base_sha, drop_clauses, drop_inserts, extras, recoveries, nodecr)
        if not new:
            break
    res = UnitResult(unit, fname, cmd, 'ok', assembled=a)
    res.recoveries = recoveries + ['%s: annotation left out: %s' % (f.item, l) for f in a.fns for l in f.lost]
    try:
        j = json.loads(out) if out.strip() else {}
    except json.JSONDecodeError:
        j = {}
    vr = j.get('verification-results', {})
    res.verified = vr.get('verified', 0)
    res.errors = vr.get('errors', 0)
    res.verus_version = j.get('verus', {}).get('version', '')
    for mod in j.get('times-ms', {}).get('smt', {}).get('smt-run-module-times', []):
        for fb in mod.get('function-breakdown', []):
            nm = fb['function']
            res.fn_ok[nm] = res.fn_ok.get(nm, True) and bool(fb.get('success'))
            res.fn_ms[nm] = res.fn_ms.get(nm, 0.0) + fb.get('time-micros', 0) / 1000.0
    res.smt_ms = j.get('times-ms', {}).get('smt', {}).get('smt-run', 0)
    diags = []
    for line in err.split('\n'):
        line = line.strip()
        if line.startswith('{'):
            try:
                diags.append(json.loads(line))
            except json.JSONDecodeError:
                pass
    res.raw_diags = diags
    frontend = []
    rlimit_hit = []
    gen_lines = a.text.split('\n')
    for d in diags:
        if d.get('level') != 'error':
            continue
        msg = d.get('message', '')
        if msg.startswith('aborting due to'):
            continue
        spans = d.get('spans', [])
        for ch in d.get('children', []):
            spans = spans + ch.get('spans', [])
        if RLIMIT_MSG.search(msg) or RLIMIT_MSG.search(d.get('rendered') or ''):
            rlimit_hit.append(d)
            continue
        if not VERIFICATION_MSG.search(msg) or d.get('code'):
            frontend.append(d)
            continue
        # map spans
        primary = next((s for s in spans if s.get('is_primary')), spans[0] if spans else None)
        fninfo = None
        repo_loc = None
        clause = None
        label = None
        named_assert = None
        tags: List[str] = []
        own = [s for s in spans if s.get('file_name', '').endswith(os.path.basename(fname))]
        for s in own:
            o = a.origin_at(s['byte_start'])
            if o.get('kind') == 'clause' and clause is None:
                clause = o.get('expr')
                label = o['label']
                tags = list(o.get('tags', []))
                clause_fn = o.get('fn')
            elif o.get('kind') == 'insert' and label is None and 'assert' in msg:
                label = 'assert@%s' % o.get('vc')
                tags = list(o.get('tags', []))
                # an assertion may carry its own name and property tags in a trailing comment: `// [name C01 C06]`
                ln = s.get('line_start', 0)
                if 0 < ln <= len(gen_lines):
                    mm = re.search(r'//\s*\[([A-Za-z0-9_. \-]+)\]', gen_lines[ln - 1])
                    if mm:
                        toks_ = mm.group(1).split()
                        nm_ = [t for t in toks_ if not re.match(r'^C\d\d$', t)]
                        tg_ = [t for t in toks_ if re.match(r'^C\d\d$', t)]
                        if nm_:
                            clause = gen_lines[ln - 1].split('//')[0].strip()
                            assert_name = nm_[0]
                            label = 'assert@%s' % o.get('vc')
                            named_assert = assert_name
                        if tg_:
                            tags = sorted(set(tags) | set(tg_))
            elif o.get('kind') in ('unit', 'include') or o.get('kind') == 'unit':
                # shim / prelude line: look for //@tag
                ln = s.get('line_start', 0)
                if 0 < ln <= len(gen_lines):
                    tg, nm = _tags_from_line(gen_lines[ln - 1])
                    if tg and label is None:
                        tags = tg
                        label = 'pre(%s)' % (nm or ('%s:%s' % (o.get('file'), o.get('line'))))
                        clause = gen_lines[ln - 1].split('//@tag')[0].strip().rstrip(',')
        if primary is not None and primary.get('file_name', '').endswith(os.path.basename(fname)):
            fninfo = a.fn_at(primary['byte_start'])
            o = a.origin_at(primary['byte_start'])
            if o.get('kind') == 'repo':
                repo_loc = '%s:%d' % (o['file'], o['line'])
        if fninfo is None:
            for s in own:
                fninfo = a.fn_at(s['byte_start'])
                if fninfo and fninfo.mode == 'body':
                    break
        if 'not all errors may have been reported' in msg:
            continue
        if fninfo is None or fninfo.mode != 'body':
            # a failure outside any extracted body (e.g. in a prelude lemma): framework problem
            frontend.append(d)
            continue
        if label is not None and label.startswith('pre(') is False and 'precondition' in msg and clause is not None:
            # failed precondition of a contracted callee: obligation of the caller
            label = 'pre(%s#%s)' % (clause_fn.split('::')[-1] if clause_fn else '?', label)
        if label is None:
            label = 'safety'
            tags = ['C05']
        fnl = '%s::%s' % (fninfo.file, fninfo.item)
        if named_assert:
            msg = '%s [%s]' % (msg, named_assert)
        res.failures.append(Failure(unit, fnl, '%s:%s#%s' % (unit, fninfo.item, label), tags, msg, repo_loc, clause,
                                    d.get('rendered') or msg))
    res.wall_s = time.time() - t0
    if frontend:
        res.status = 'frontend'
        res.detail = '; '.join((d.get('message') or '')[:300] for d in frontend[:5])
    elif rlimit_hit and not res.failures:
        res.status = 'rlimit'
        res.detail = '; '.join((d.get('message') or '')[:200] for d in rlimit_hit[:5])
    elif res.failures:
        res.status = 'failed'
    elif rc != 0 or not vr.get('success', False):
        res.status = 'internal'
        res.detail = (err or out)[-2000:]
    return res


_BASE_SHA = None


def baseline_fn_sha() -> Dict[str, str]:
    """sha256 of every function text at the time the baseline was taken (to tell changed functions from unchanged ones)"""
    global _BASE_SHA
    if _BASE_SHA is None:
        try:
            _BASE_SHA = json.load(open(os.path.join(VERIF, 'baseline', 'obligations.json'))).get('_fn_sha', {})
        except (FileNotFoundError, json.JSONDecodeError):
            _BASE_SHA = {}
    return _BASE_SHA


_UNKNOWN_FN = re.compile(r"cannot find function `(\w+)` in this scope")
_UNKNOWN_METHOD = re.compile(r"no (?:method|function or associated item) named `(\w+)` found for [^`]*`[^`]*?(\w+)(?:<[^`]*>)?`")


def _recover(a: asm.Assembled, err: str, base: str, base_sha, drop_clauses: set, drop_inserts: set, extras: list, log: list,
             nodecr: Optional[set] = None) -> bool:
    """Front-end errors caused by a *changed* function are worked around so that the verifier can still be asked about the
    obligations (rules R25-R27); errors in unchanged text are never worked around.  Returns True if something new was done."""
    new = False
    for line in err.split('\n'):
        line = line.strip()
        if not line.startswith('{'):
            continue
        try:
            d = json.loads(line)
        except json.JSONDecodeError:
            continue
        if d.get('level') != 'error' or (d.get('message') or '').startswith('aborting due to'):
            continue
        msg = d.get('message') or ''
        if VERIFICATION_MSG.search(msg) and not d.get('code'):
            continue
        spans = [s for s in d.get('spans', []) if s.get('file_name', '').endswith(base)]
        for sp in spans:
            o = a.origin_at(sp['byte_start'])
            fi = a.fn_at(sp['byte_start'])
            if fi is None:
                continue
            label = '%s::%s' % (fi.file, fi.item)
            changed = fi.auto_added or (label in base_sha and base_sha[label] != fi.sha256)
            if nodecr is not None and 'must have a decreases clause' in msg and fi.mode == 'body' and (extras or changed) and label not in nodecr:
                # a helper pulled in without a contract (R27), or the changed function itself, closed a new recursion cycle
                nodecr.add(label)
                log.append('R27 %s: is part of a recursion cycle through changed code; termination of that cycle is not claimed' % fi.item)
                new = True
                continue
            if o.get('kind') == 'clause' and (fi.mode == 'stub' and changed or fi.mode == 'body' and changed):
                key = (o.get('fn'), o.get('label'))
                if key not in drop_clauses:
                    drop_clauses.add(key)
                    log.append('R25 %s: clause %s left out (does not compile against the changed signature/body: %s)' % (fi.item, o.get('label'), msg[:100]))
                    new = True
            elif o.get('kind') == 'insert' and fi.mode == 'body' and changed:
                key = (o.get('fn'), o.get('vc'))
                if key not in drop_inserts:
                    drop_inserts.add(key)
                    log.append('R26 %s: proof block %s left out (does not compile against the changed body: %s)' % (fi.item, o.get('vc'), msg[:100]))
                    new = True
            elif o.get('kind') == 'repo' and fi.mode == 'body':
                m1, m2 = _UNKNOWN_FN.search(msg), _UNKNOWN_METHOD.search(msg)
                name, tname = (m1.group(1), None) if m1 else ((m2.group(1), m2.group(2)) if m2 else (None, None))
                if name:
                    # a method call on `self`: the type of the enclosing impl
                    if tname is None and '::' in fi.item:
                        tname = None
                    hit = asm.find_helper(fi.file, name, tname or (fi.item.split('::')[0] if m2 else None))
                    if hit and not any(x[1] == hit[0] and x[2] == hit[1] for x in extras) and not any(f.file == hit[0] and f.item == hit[1] for f in a.fns):
                        extras.append((label, hit[0], hit[1]))
                        log.append('R27 %s: helper %s::%s pulled in without a contract' % (fi.item, hit[0], hit[1]))
                        new = True
    return new


def static_obligations(a: asm.Assembled) -> List[dict]:
    """Obligations generated for the body-mode functions of an assembled unit (measured, not constant)."""
    obs = []
    for f in a.fns:
        if f.mode != 'body':
            continue
        serves = f.contract.serves if f.contract else []
        for c in f.clauses:
            if c.kind in ('ensures', 'invariant', 'decreases', 'invariant_except_break'):
                obs.append({'id': '%s:%s#%s' % (a.unit, f.item, c.label), 'fn': '%s::%s' % (f.file, f.item),
                            'tags': c.tags, 'text': '%s %s' % (c.kind, re.sub(r'\s+', ' ', c.expr)), 'kind': c.kind})
        for (loc, n_as) in f.proof_blocks:
            obs.append({'id': '%s:%s#assert@%s' % (a.unit, f.item, loc), 'fn': '%s::%s' % (f.file, f.item),
                        'tags': serves, 'text': 'inserted proof block at %s (%d assertions)' % (loc, n_as), 'kind': 'assert'})
        obs.append({'id': '%s:%s#safety' % (a.unit, f.item), 'fn': '%s::%s' % (f.file, f.item),
                    'tags': sorted(set(['C05'] + list(serves))),
                    'text': 'no overflow / out-of-bounds / failed unwrap / unreachable, and every callee precondition holds at each call site',
                    'kind': 'safety'})
    return obs


def run_units(unit_paths: List[str], rlimit: float = 10, seed: int = 0, canary: bool = True, jobs: int = 8) -> Dict[str, dict]:
    contracts = load_all(VERIF)
    out: Dict[str, dict] = {}
    tasks = []
    threads = max(2, 16 // max(1, min(jobs, len(unit_paths) * (2 if canary else 1))))
    with ThreadPoolExecutor(max_workers=jobs) as ex:
        futs = {}
        for up in unit_paths:
            futs[(up, False)] = ex.submit(verify_unit, up, contracts, False, unit_rlimit(up, rlimit), seed, threads)
            if canary:
                futs[(up, True)] = ex.submit(verify_unit, up, contracts, True, unit_rlimit(up, rlimit), seed, threads)
        for (up, can), fu in futs.items():
            r = fu.result()
            out.setdefault(r.unit, {})['canary' if can else 'main'] = r
    # retry failed / rlimit units once with 4x rlimit and another seed; keep only failures that repeat
    for unit, d in out.items():
        r: UnitResult = d['main']
        if r.status in ('failed', 'rlimit'):
            up = [u for u in unit_paths if os.path.splitext(os.path.basename(u))[0] == unit][0]
            r2 = verify_unit(up, contracts, False, rlimit * 4, seed + 17, 8)
            d['retry'] = r2
            if r2.status == 'ok':
                r.status = 'ok'
                r.detail = 'failed at rlimit %s, verified at rlimit %s with another seed' % (rlimit, rlimit * 4)
                r.failures = []
                r.fn_ok, r.fn_ms, r.verified, r.errors = r2.fn_ok, r2.fn_ms, r2.verified, r2.errors
            elif r2.status == 'failed':
                keep = {f.obligation for f in r2.failures}
                both = [f for f in r.failures if f.obligation in keep]
                r.failures = both if both else r2.failures
                r.status = 'failed'
            else:
                r.status = r2.status
                r.detail = r2.detail
    return out
