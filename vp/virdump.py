#!/usr/bin/env python3
"""Readable dump of functions from a Verus `--log vir` crate.vir (there is no vstd source on this image).
usage: virdump.py crate.vir <name-substring> [...]
"""
import sys, re


def parse(s):
    i, n = 0, len(s)
    stack = [[]]
    while i < n:
        c = s[i]
        if c.isspace():
            i += 1
        elif c == '(':
            stack.append([])
            i += 1
        elif c == ')':
            x = stack.pop()
            stack[-1].append(x)
            i += 1
        elif c == '"':
            j = i + 1
            while s[j] != '"':
                if s[j] == '\\':
                    j += 1
                j += 1
            stack[-1].append(s[i:j + 1])
            i = j + 1
        else:
            j = i
            while j < n and not s[j].isspace() and s[j] not in '()':
                j += 1
            stack[-1].append(s[i:j])
            i = j
    return stack[0]


def kw(l, k):
    for i, x in enumerate(l):
        if x == k and i + 1 < len(l):
            return l[i + 1]
    return None


def strip(e):
    """drop span wrappers (@ "span" X) / (@@ "span" X) and (> X typ)"""
    while isinstance(e, list) and e:
        if e[0] in ('@', '@@') and len(e) >= 3:
            e = e[2]
        elif e[0] == '>':
            e = e[1:-1] if len(e) > 2 else e[1:]
            if len(e) == 1 and isinstance(e[0], list):
                e = e[0]
        else:
            break
    return e


def fun_name(t):
    # (Fun :path a::b) or (Fun a::b)
    t = strip(t)
    if isinstance(t, list) and t and t[0] == 'Fun':
        return t[-1] if t[1] != ':path' else t[2]
    return str(t)


def ex(e):
    try:
        return _ex(e)
    except Exception:
        e = strip(e)
        return '(' + ' '.join(ex(x) if isinstance(x, list) else str(x) for x in e) + ')' if isinstance(e, list) else str(e)


def _ex(e):
    e = strip(e)
    if not isinstance(e, list):
        return str(e)
    if not e:
        return '()'
    h = e[0]
    if h == 'Call':
        tgt = kw(e, ':target')
        args = kw(e, ':args') or []
        name = '?'
        t = strip(tgt)
        if isinstance(t, list) and t and t[0] == 'CallTarget':
            if t[1] == 'Fun':
                # (CallTarget Fun (CallTargetKind ...) (Fun ...) typs impls attrs)
                for x in t[2:]:
                    if isinstance(x, list) and x and x[0] == 'Fun':
                        name = fun_name(x)
                        break
            else:
                name = ' '.join(str(x) for x in t[1:2])
        return '%s(%s)' % (name.split('::')[-1] if name.count('::') > 3 else name, ', '.join(ex(a) for a in args))
    if h == 'ReadPlace':
        return ex(e[1])
    if h == 'Place':
        if e[1] == 'Local':
            v = e[2]
            return v[1].strip('"') if isinstance(v, list) else str(v)
        if e[1] == 'Field':
            return ex(e[-1]) + '.' + str(kw(e, ':field') or e[2])
        return 'place(' + ' '.join(ex(x) for x in e[1:]) + ')'
    if h == 'Var':
        v = e[1]
        return v[1].strip('"') if isinstance(v, list) else str(v)
    if h == 'Const':
        c = e[1]
        return ' '.join(str(x) for x in c[1:]) if isinstance(c, list) else str(c)
    if h == 'Binary':
        op = e[1]
        opn = ' '.join(str(x) if not isinstance(x, list) else '(' + ' '.join(map(str, x[:2])) + ')' for x in op[1:])
        return '(%s %s %s)' % (ex(e[2]), opn, ex(e[3]))
    if h == 'Logical':
        op = e[1][1]
        return '(' + (' %s ' % op).join(ex(x) for x in e[2:]) + ')'
    if h == 'Unary':
        return '%s(%s)' % (' '.join(map(str, e[1] if isinstance(e[1], list) else [e[1]])), ex(e[2]))
    if h == 'UnaryOpr':
        o = e[1]
        return '%s(%s)' % (' '.join(str(x) if not isinstance(x, list) else ex(x) for x in o), ex(e[2]))
    if h == 'If':
        return 'if %s { %s } else { %s }' % (ex(e[1]), ex(e[2]), ex(e[3]) if len(e) > 3 else '')
    if h == 'Block':
        stm = e[1] if len(e) > 1 else []
        rest = e[2:]
        return '{ ' + '; '.join(ex(x) for x in stm) + ' ' + ' '.join(ex(r) for r in rest) + ' }'
    if h == 'Quant':
        q = e[1]
        binders = kw(e, ':binders') or (e[2] if len(e) > 2 else [])
        return '%s|%s| %s' % (q[1] if isinstance(q, list) else q, ex_b(binders), ex(e[-1]))
    if h in ('Match',):
        return 'match %s { %s }' % (ex(e[1]), ' | '.join(ex(a) for a in e[2]))
    if h == 'Ctor':
        return 'Ctor ' + ' '.join(ex(x) for x in e[1:])
    return '(' + ' '.join(ex(x) if isinstance(x, list) else str(x) for x in e) + ')'


def ex_b(b):
    out = []
    for x in b:
        x = strip(x)
        if isinstance(x, list):
            n = kw(x, ':name')
            out.append(n[1].strip('"') if isinstance(n, list) else str(n))
    return ', '.join(out)


def main():
    txt = open(sys.argv[1]).read()
    pats = sys.argv[2:]
    # split into top-level function forms cheaply: find "(Function" occurrences
    idxs = [m.start() for m in re.finditer(r'\(Function\b', txt)]
    for a, b in zip(idxs, idxs[1:] + [len(txt)]):
        chunk = txt[a:b]
        m = re.search(r':name \(Fun :path ([^ )]+)', chunk)
        if not m:
            continue
        name = m.group(1)
        if not any(p in name for p in pats):
            continue
        # balance parens
        d = 0
        end = 0
        instr = False
        for i, ch in enumerate(chunk):
            if ch == '"' and chunk[i - 1] != '\\':
                instr = not instr
            if instr:
                continue
            if ch == '(':
                d += 1
            elif ch == ')':
                d -= 1
                if d == 0:
                    end = i + 1
                    break
        f = strip(parse(chunk[:end])[0])
        print('=== %s  [%s]' % (name, kw(f, ':mode')))
        prox = kw(f, ':proxy')
        params = kw(f, ':params') or []
        ps = []
        for p in params:
            p = strip(p)
            if isinstance(p, list) and p and isinstance(p[0], list):
                p = strip(p[0])
            n = kw(p, ':name')
            ps.append(n[1].strip('"') if isinstance(n, list) else str(n))
        print('  params:', ', '.join(ps))
        for k in (':require', ':ensure', ':returns', ':decrease', ':body'):
            v = kw(f, k)
            if v in (None, 'None', []):
                continue
            if k == ':ensure':
                # (ensure (exprs) (exprs))
                for grp in v:
                    if isinstance(grp, list):
                        for x in grp:
                            print('  ensures', ex(x))
                continue
            if k in (':require', ':decrease'):
                for x in v:
                    print('  %s %s' % (k[1:], ex(x)))
                continue
            print('  %s %s' % (k[1:], ex(v)))
        print()


if __name__ == '__main__':
    sys.setrecursionlimit(100000)
    main()
