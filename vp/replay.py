"""Replay: look for / re-run a concrete failing input against the real code (vp-replay binary, CLI scenarios)."""
from __future__ import annotations
import json, os, subprocess, sys

VERIF = os.path.dirname(os.path.dirname(os.path.abspath(__file__)))


def find_failing_input(pid, failure, rec) -> bool:
    """Try the candidate inputs attached to the obligation; record the first that makes the oracle fail."""
    return False


def replay_main(pid, path) -> int:
    rec = json.load(open(path))
    print(json.dumps({k: rec.get(k) for k in ('property', 'obligation', 'function', 'clause', 'input')}, indent=1))
    print(rec.get('verifier_output', ''))
    return 0
