"""Replay: look for / re-run a concrete failing input against the real code (vp-replay binary built from /repo's working tree).

Replay never decides a property.  It is consulted only after the verifier has reported a failed obligation; the oracle of
the property (its statement, checked on one concrete input by parsing input and output with typst-syntax) is run over the
committed corpus (tests/fixtures of the repository + replay/corpus), skipping the inputs on which the oracle already fails on
the unchanged tree (replay/baseline_failures.json: known findings).  A hit is attached to the VIOLATION line's replay file; a miss
yields `no-failing-input-found`."""
from __future__ import annotations
import glob, json, os, subprocess, sys, tempfile

VERIF = os.path.dirname(os.path.dirname(os.path.abspath(__file__)))
REPO = os.environ.get('VP_REPO', '/repo')
SCRATCH = os.path.realpath(REPO) != '/repo'          # bin/seed-matrix: the checks run on a scratch copy of the sources
TARGET = os.path.join(VERIF, 'build', 'replay-target-scratch' if SCRATCH else 'replay-target')
BIN = os.path.join(TARGET, 'debug', 'vp-replay')
LIB_PROPS = ('C01', 'C04', 'C05', 'C06', 'C07', 'C08', 'C09', 'C10', 'C11', 'C12', 'C13', 'C19')
_built = {}


def build() -> bool:
    """(Re)build vp-replay against the current working tree of the repository (cargo is incremental)."""
    if 'ok' in _built:
        return _built['ok']
    d = os.path.join(VERIF, 'replay')
    env = dict(os.environ, CARGO_NET_OFFLINE='true')
    try:
        if SCRATCH:
            # same crate, with the path dependency pointing at the scratch copy
            import shutil
            d2 = os.path.join(VERIF, 'build', 'replay-crate-scratch')
            shutil.rmtree(d2, ignore_errors=True)
            shutil.copytree(d, d2, ignore=shutil.ignore_patterns('corpus', 'target'))
            t = open(os.path.join(d2, 'Cargo.toml')).read().replace('/repo/crates/typstyle-core', os.path.join(os.path.realpath(REPO), 'crates', 'typstyle-core'))
            open(os.path.join(d2, 'Cargo.toml'), 'w').write(t)
            d = d2
        lock = os.path.join(REPO, 'Cargo.lock')
        if os.path.exists(lock) and not os.path.exists(os.path.join(d, 'Cargo.lock')):
            import shutil
            shutil.copy(lock, os.path.join(d, 'Cargo.lock'))
        p = subprocess.run(['cargo', 'build', '--offline', '--target-dir', TARGET], cwd=d, env=env, capture_output=True, text=True, timeout=900)
        _built['ok'] = p.returncode == 0 and os.path.exists(BIN)
        _built['log'] = p.stderr[-2000:]
    except Exception as e:  # noqa
        _built['ok'] = False
        _built['log'] = str(e)
    return _built['ok']


def corpus():
    """Hand-written edge cases, the repository's fixtures, and the generated systematic inputs (replay/gen_corpus.py: every
    expression form in every syntactic context; deterministic, regenerated when missing)."""
    fx = sorted(glob.glob(os.path.join(REPO, 'tests', 'fixtures', '**', '*.typ'), recursive=True))
    own = sorted(glob.glob(os.path.join(VERIF, 'replay', 'corpus', '*.typ')))
    gen_dir = os.path.join(VERIF, 'build', 'gen-corpus')
    if not os.path.isdir(gen_dir) or not os.listdir(gen_dir):
        subprocess.run([sys.executable, os.path.join(VERIF, 'replay', 'gen_corpus.py')], capture_output=True, timeout=300)
    gen = sorted(glob.glob(os.path.join(gen_dir, '*.typ')))
    return own + fx + gen


def baseline_failures(pid):
    try:
        j = json.load(open(os.path.join(VERIF, 'replay', 'baseline_failures.json')))
    except (FileNotFoundError, json.JSONDecodeError):
        return set()
    return set(j.get(pid, []))


def run_oracle(pid, files, widths=None, tabs=None, extra=()):
    cmd = [BIN, pid]
    if widths:
        cmd += ['--widths', ','.join(str(w) for w in widths)]
    if tabs:
        cmd += ['--tabs', ','.join(str(t) for t in tabs)]
    cmd += list(extra) + list(files)
    try:
        p = subprocess.run(cmd, capture_output=True, text=True, timeout=1200)
    except subprocess.TimeoutExpired:
        return []
    out = []
    for l in p.stdout.split('\n'):
        l = l.strip()
        if l.startswith('{'):
            try:
                out.append(json.loads(l))
            except json.JSONDecodeError:
                pass
    return out


def find_failing_input(pid, failure, rec) -> bool:
    """Run the property's oracle over the corpus on the real code; record the first input that fails and did not fail before."""
    if os.environ.get('VERIF_NO_REPLAY'):
        rec['replay_note'] = 'replay skipped (VERIF_NO_REPLAY)'
        return False
    if pid in ('C14', 'C15', 'C16'):
        import cli_replay
        return cli_replay.find_failing_scenario(pid, rec)
    if pid not in LIB_PROPS:
        return False
    if not build():
        rec['replay_note'] = 'vp-replay does not build against the current tree: ' + _built.get('log', '')[-400:]
        return False
    known = baseline_failures(pid)
    files = [f for f in corpus() if os.path.relpath(f, REPO if f.startswith(REPO) else VERIF) not in known]
    hits = run_oracle(pid, files, extra=['--max', '120'])
    if not hits:
        rec['replay_note'] = 'oracle of %s holds on all %d corpus inputs at widths 0/20/40/80/120 x tabs 2/4' % (pid, len(files))
        return False
    h = hits[0]
    try:
        src = open(h['file'], encoding='utf-8').read()
    except Exception:  # noqa
        src = None
    rec['input'] = {'file': h['file'], 'width': h['width'], 'tab': h['tab'], 'reorder': h.get('reorder', False),
                    'oracle_says': h['why'], 'source': src if src is not None and len(src) < 6000 else None,
                    'other_failing_inputs': [x['file'] for x in hits[1:6]]}
    return True


def replay_main(pid, path) -> int:
    """Re-run the recorded input of a replay file against the real code; exit 1 if the violation reproduces."""
    rec = json.load(open(path))
    print(json.dumps({k: rec.get(k) for k in ('property', 'obligation', 'function', 'clause')}, indent=1))
    print(rec.get('verifier_output', ''))
    inp = rec.get('input')
    if not inp:
        print('no concrete input recorded (no-failing-input-found): the replay file names the failed obligation and carries the verifier output')
        return 0
    if pid in ('C14', 'C15', 'C16'):
        import cli_replay
        return cli_replay.replay_scenario(pid, inp)
    if not build():
        print('vp-replay does not build against the current tree')
        return 2
    f = inp['file']
    tmp = None
    if not os.path.exists(f) and inp.get('source') is not None:
        tmp = tempfile.NamedTemporaryFile('w', suffix='.typ', delete=False, encoding='utf-8')
        tmp.write(inp['source'])
        tmp.close()
        f = tmp.name
    hits = run_oracle(pid, [f], widths=[inp['width']], tabs=[inp['tab']])
    if tmp:
        os.unlink(tmp.name)
    if hits:
        print('REPRODUCED on the real code: %s' % hits[0]['why'])
        return 1
    print('not reproduced on the current tree')
    return 0
