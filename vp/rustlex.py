"""Minimal Rust-aware lexer and item locator.

Only what the extractor needs: a token stream with byte offsets that is correct in the presence of
comments (nested block comments), string / raw-string / byte-string literals, char literals vs.
lifetimes; and on top of it a locator for items (fn / struct / enum / const / impl / mod / trait),
loops and closures inside a function body.  Nothing here interprets Rust semantics.
"""
from __future__ import annotations
import re
from dataclasses import dataclass, field
from typing import List, Optional, Tuple

IDENT_RE = re.compile(r'[A-Za-z_][A-Za-z0-9_]*')
NUM_RE = re.compile(r'[0-9][0-9A-Za-z_]*(\.[0-9][0-9A-Za-z_]*)?')


@dataclass
class Tok:
    kind: str      # ident, punct, str, char, lifetime, num, comment, doc
    text: str
    start: int
    end: int


class LexError(Exception):
    pass


def lex(src: str, keep_comments: bool = False) -> List[Tok]:
    toks: List[Tok] = []
    i, n = 0, len(src)
    while i < n:
        c = src[i]
        if c in ' \t\r\n':
            i += 1
            continue
        # comments
        if src.startswith('//', i):
            j = src.find('\n', i)
            if j < 0:
                j = n
            if keep_comments:
                toks.append(Tok('comment', src[i:j], i, j))
            i = j
            continue
        if src.startswith('/*', i):
            depth, j = 1, i + 2
            while j < n and depth > 0:
                if src.startswith('/*', j):
                    depth += 1
                    j += 2
                elif src.startswith('*/', j):
                    depth -= 1
                    j += 2
                else:
                    j += 1
            if depth:
                raise LexError('unterminated block comment at %d' % i)
            if keep_comments:
                toks.append(Tok('comment', src[i:j], i, j))
            i = j
            continue
        # raw strings r"..", r#".."#, br".."
        m = re.match(r'(b?r)(#*)"', src[i:i + 40])
        if m and (i == 0 or not (src[i - 1].isalnum() or src[i - 1] == '_')):
            hashes = m.group(2)
            close = '"' + hashes
            j = src.find(close, i + len(m.group(0)))
            if j < 0:
                raise LexError('unterminated raw string at %d' % i)
            j += len(close)
            toks.append(Tok('str', src[i:j], i, j))
            i = j
            continue
        # strings (incl. b"..")
        if c == '"' or (c == 'b' and i + 1 < n and src[i + 1] == '"'):
            j = i + (2 if c == 'b' else 1)
            while j < n and src[j] != '"':
                if src[j] == '\\':
                    j += 1
                j += 1
            if j >= n:
                raise LexError('unterminated string at %d' % i)
            j += 1
            toks.append(Tok('str', src[i:j], i, j))
            i = j
            continue
        # char literal vs lifetime
        if c == "'" or (c == 'b' and i + 1 < n and src[i + 1] == "'"):
            k = i + (1 if c == 'b' else 0)
            # char literal: '\..' or 'x' followed by '
            if k + 1 < n and src[k + 1] == '\\':
                j = k + 2
                while j < n and src[j] != "'":
                    j += 1
                j += 1
                toks.append(Tok('char', src[i:j], i, j))
                i = j
                continue
            if k + 2 < n and src[k + 2] == "'":
                j = k + 3
                toks.append(Tok('char', src[i:j], i, j))
                i = j
                continue
            # multi-byte char literal like '\u{..}' handled above; unicode scalar 'é'
            m2 = re.match(r"'[^'\\\n]'", src[k:k + 8])
            if m2:
                j = k + len(m2.group(0))
                toks.append(Tok('char', src[i:j], i, j))
                i = j
                continue
            if c == "'":
                m3 = IDENT_RE.match(src, i + 1)
                if m3:
                    toks.append(Tok('lifetime', src[i:m3.end()], i, m3.end()))
                    i = m3.end()
                    continue
            raise LexError('bad quote at %d' % i)
        m = IDENT_RE.match(src, i)
        if m:
            toks.append(Tok('ident', m.group(0), i, m.end()))
            i = m.end()
            continue
        m = NUM_RE.match(src, i)
        if m:
            # do not swallow `..` range after an integer: 0..n
            txt = m.group(0)
            if '.' in txt and src.startswith('..', i + txt.index('.')):
                txt = txt[:txt.index('.')]
            toks.append(Tok('num', txt, i, i + len(txt)))
            i += len(txt)
            continue
        # punctuation: a few multi-char ones we care about
        for p in ('..=', '...', '::', '->', '=>', '==', '!=', '<=', '>=', '&&', '||', '+=', '-=', '*=', '/=',
                  '|=', '&=', '^=', '..', '<<', '>>'):
            if src.startswith(p, i):
                toks.append(Tok('punct', p, i, i + len(p)))
                i += len(p)
                break
        else:
            toks.append(Tok('punct', c, i, i + 1))
            i += 1
    return toks


OPEN = {'(': ')', '[': ']', '{': '}'}
CLOSE = {')': '(', ']': '[', '}': '{'}


def match_close(toks: List[Tok], i: int) -> int:
    """toks[i] is an opening bracket; return the index of its matching close."""
    assert toks[i].text in OPEN, toks[i]
    depth = 0
    for j in range(i, len(toks)):
        t = toks[j]
        if t.kind != 'punct':
            continue
        if t.text in OPEN:
            depth += 1
        elif t.text in CLOSE:
            depth -= 1
            if depth == 0:
                return j
    raise LexError('unbalanced bracket at %d' % toks[i].start)


@dataclass
class Item:
    kind: str               # fn, struct, enum, const, static, type, impl, mod, trait
    name: str               # for impl: the self type text (normalised), plus "Trait for Type"
    start: int              # byte offset of the first attribute / visibility / keyword
    kw: int                 # token index of the keyword
    sig_end: int            # byte offset of body '{' (fn/impl/mod/trait/struct/enum) or of ';'
    end: int                # byte offset one past the closing '}' or ';'
    body_open_tok: int = -1
    body_close_tok: int = -1
    children: List['Item'] = field(default_factory=list)
    parent: Optional['Item'] = None

    def path(self) -> str:
        parts = []
        it = self
        while it is not None:
            if it.kind != 'mod' or it.parent is not None or True:
                parts.append(it.name)
            it = it.parent
        return '::'.join(reversed(parts))


ITEM_KW = {'fn', 'struct', 'enum', 'const', 'static', 'type', 'impl', 'mod', 'trait', 'use', 'macro_rules'}
PREFIX_KW = {'pub', 'unsafe', 'async', 'extern', 'default'}


def _item_start(src: str, toks: List[Tok], k: int, lo_tok: int) -> int:
    """Walk backwards from keyword token k over visibility / qualifiers / attributes; return byte offset."""
    j = k
    while j - 1 >= lo_tok:
        p = toks[j - 1]
        if p.kind == 'ident' and p.text in PREFIX_KW:
            j -= 1
            continue
        if p.kind == 'str' and j - 2 >= lo_tok and toks[j - 2].text == 'extern':
            j -= 1
            continue
        if p.text == ')' and p.kind == 'punct':
            # pub(super) / pub(crate) / pub(in path)
            d = 0
            q = j - 1
            while q >= lo_tok:
                if toks[q].text == ')':
                    d += 1
                elif toks[q].text == '(':
                    d -= 1
                    if d == 0:
                        break
                q -= 1
            if q - 1 >= lo_tok and toks[q - 1].text == 'pub':
                j = q - 1
                continue
            break
        if p.text == ']' and p.kind == 'punct':
            # attribute #[...]
            d = 0
            q = j - 1
            while q >= lo_tok:
                if toks[q].text == ']':
                    d += 1
                elif toks[q].text == '[':
                    d -= 1
                    if d == 0:
                        break
                q -= 1
            if q - 1 >= lo_tok and toks[q - 1].text == '#':
                j = q - 1
                continue
            if q - 2 >= lo_tok and toks[q - 1].text == '!' and toks[q - 2].text == '#':
                break
            break
        break
    return toks[j].start


def parse_items(src: str, toks: List[Tok], lo: int, hi: int, parent: Optional[Item] = None) -> List[Item]:
    """Parse the items between token indices [lo, hi)."""
    items: List[Item] = []
    i = lo
    prev_end_tok = lo
    while i < hi:
        t = toks[i]
        if t.kind == 'ident' and t.text in ITEM_KW:
            kw = t.text
            # `const fn`, `const` generics not at item level; `impl` in type position can't occur at item level
            if kw == 'const' and i + 1 < hi and toks[i + 1].text in ('fn', 'unsafe'):
                i += 1
                continue
            if kw == 'unsafe' or kw == 'default':
                i += 1
                continue
            start = _item_start(src, toks, i, prev_end_tok)
            # find terminator: first '{' or ';' at bracket depth 0 (angle brackets ignored)
            j = i + 1
            depth = 0
            term = None
            while j < hi:
                tt = toks[j]
                if tt.kind == 'punct':
                    if tt.text in ('(', '['):
                        depth += 1
                    elif tt.text in (')', ']'):
                        depth -= 1
                    elif depth == 0 and tt.text in ('{', ';'):
                        term = j
                        break
                    elif depth == 0 and tt.text == '=' and kw in ('const', 'static', 'type'):
                        # initializer may contain braces: skip to ';' at depth 0 with brace matching
                        q = j + 1
                        while q < hi:
                            if toks[q].kind == 'punct' and toks[q].text in OPEN:
                                q = match_close(toks, q)
                            elif toks[q].text == ';':
                                break
                            q += 1
                        term = q
                        break
                j += 1
            if term is None:
                raise LexError('item without terminator at %d' % t.start)
            if kw == 'impl':
                name = _norm(src[toks[i + 1].start:toks[term].start])
                name = _strip_impl_generics(toks, i + 1, term, src)
            elif kw in ('use', 'macro_rules'):
                name = ''
            else:
                name = toks[i + 1].text
            if toks[term].text == '{':
                close = match_close(toks, term)
                it = Item(kw, name, start, i, toks[term].start, toks[close].end, term, close, parent=parent)
                if kw in ('impl', 'mod', 'trait'):
                    it.children = parse_items(src, toks, term + 1, close, it)
                end_tok = close
                # tuple-struct / unit forms end with ';' handled below
            else:
                it = Item(kw, name, start, i, toks[term].start, toks[term].end, parent=parent)
                end_tok = term
            if kw == 'struct' and toks[term].text == '{':
                pass
            if kw not in ('use', 'macro_rules'):
                items.append(it)
            i = end_tok + 1
            prev_end_tok = i
            continue
        i += 1
    return items


def _norm(s: str) -> str:
    return re.sub(r'\s+', ' ', s).strip()


def _strip_impl_generics(toks: List[Tok], a: int, b: int, src: str) -> str:
    """impl<'a, T: X> Trait<U> for Type<'a> where ... -> 'Trait for Type' / 'Type' (generic args dropped)."""
    i = a
    # skip leading generics
    if toks[i].text == '<':
        d = 0
        while i < b:
            if toks[i].text == '<':
                d += 1
            elif toks[i].text == '>':
                d -= 1
                if d == 0:
                    i += 1
                    break
            elif toks[i].text == '>>':
                d -= 2
                if d <= 0:
                    i += 1
                    break
            i += 1
    out = []
    d = 0
    while i < b:
        t = toks[i]
        if t.text == 'where' and d == 0:
            break
        if t.text == '<':
            d += 1
        elif t.text == '>':
            d -= 1
        elif t.text == '>>':
            d -= 2
        elif d == 0:
            out.append(t.text)
        i += 1
    s = ' '.join(out)
    s = s.replace(' :: ', '::')
    return s


@dataclass
class Loop:
    kw_tok: int          # token index of for/while/loop
    kw: str
    open_tok: int        # '{' of the loop body
    close_tok: int
    label_tok: int = -1  # token index of a `'label` preceding, or -1


@dataclass
class Closure:
    bar_tok: int         # first '|' (or '||') token index
    params_end_tok: int  # index of the closing '|' (== bar_tok for '||')
    body_start_tok: int  # first token of the body (after optional `-> T`)
    body_end_tok: int    # last token of the body
    is_block: bool
    has_move: bool


def find_loops(toks: List[Tok], lo: int, hi: int) -> List[Loop]:
    loops = []
    i = lo
    while i < hi:
        t = toks[i]
        if t.kind == 'ident' and t.text in ('for', 'while', 'loop'):
            # `for<'a>` HRTB or `impl X for Y` do not occur inside bodies we handle except HRTB: skip if next is '<'
            if t.text == 'for' and toks[i + 1].text == '<':
                i += 1
                continue
            j = i + 1
            depth = 0
            seen_in = t.text != 'for'       # a `for` pattern may contain braces (struct pattern): the body comes after `in`
            while j < hi:
                tt = toks[j]
                if tt.kind == 'ident' and tt.text == 'in' and depth == 0:
                    seen_in = True
                if tt.kind == 'punct':
                    if tt.text in ('(', '['):
                        depth += 1
                    elif tt.text in (')', ']'):
                        depth -= 1
                    elif tt.text == '{':
                        if depth == 0 and seen_in:
                            break
                        j = match_close(toks, j)
                j += 1
            if j >= hi:
                raise LexError('loop without body at %d' % t.start)
            close = match_close(toks, j)
            lbl = -1
            if i - 2 >= lo and toks[i - 1].text == ':' and toks[i - 2].kind == 'lifetime':
                lbl = i - 2
            loops.append(Loop(i, t.text, j, close, lbl))
        i += 1
    return loops


_EXPR_START_PREV = {'(', ',', '=', '{', ';', '=>', 'return', 'move', '[', '&&', '||', '!', ':', '+', '+=', '?'}


def find_closures(toks: List[Tok], lo: int, hi: int) -> List[Closure]:
    """Closures in source order (outer before inner)."""
    res = []
    i = lo
    while i < hi:
        t = toks[i]
        if t.kind == 'punct' and t.text in ('|', '||'):
            prev = toks[i - 1]
            is_start = (prev.kind == 'punct' and prev.text in _EXPR_START_PREV) or \
                       (prev.kind == 'ident' and prev.text in ('move', 'return', 'else', 'in'))
            if is_start:
                has_move = prev.text == 'move'
                if t.text == '||':
                    pe = i
                else:
                    pe = i + 1
                    d = 0
                    while pe < hi:
                        x = toks[pe]
                        if x.kind == 'punct':
                            if x.text in OPEN:
                                d += 1
                            elif x.text in CLOSE:
                                d -= 1
                            elif x.text == '|' and d == 0:
                                break
                        pe += 1
                bs = pe + 1
                if toks[bs].text == '->':
                    # explicit return type: body must be a block
                    while toks[bs].text != '{':
                        bs += 1
                if toks[bs].text == '{':
                    be = match_close(toks, bs)
                    is_block = True
                else:
                    # expression body: ends before ',' or closing bracket or ';' at depth 0
                    d = 0
                    be = bs
                    while be < hi:
                        x = toks[be]
                        if x.kind == 'punct':
                            if x.text in OPEN:
                                d += 1
                            elif x.text in CLOSE:
                                if d == 0:
                                    break
                                d -= 1
                            elif d == 0 and x.text in (',', ';'):
                                break
                        be += 1
                    be -= 1
                    is_block = False
                res.append(Closure(i, pe, bs, be, is_block, has_move))
                i = pe + 1
                continue
        i += 1
    return res


def desugar_orpat_guards(text: str):
    """Rule R24: a match arm `P1 | P2 if G => BODY` (which Verus rejects: or-pattern together with a guard) is expanded
    into `P1 if G => BODY, P2 if G => BODY,` -- the same meaning in Rust (the guard is evaluated per alternative).
    The extra copies are laid out on the arm's last line (comments dropped), so line numbers are unchanged.
    Returns (new_text, [byte offsets in new_text where the rule was applied])."""
    toks = lex(text)
    edits = []
    n = len(toks)
    for i, t in enumerate(toks):
        if not (t.kind == 'ident' and t.text == 'match'):
            continue
        # the match body: first `{` at depth 0 after the scrutinee
        j, depth = i + 1, 0
        while j < n:
            x = toks[j]
            if x.kind == 'punct' and x.text in ('(', '['):
                depth += 1
            elif x.kind == 'punct' and x.text in (')', ']'):
                depth -= 1
            elif x.kind == 'punct' and x.text == '{' and depth == 0:
                break
            elif x.kind == 'punct' and x.text == ';' and depth == 0:
                j = n
            j += 1
        if j >= n:
            continue
        close = match_close(toks, j)
        k = j + 1
        while k < close:
            # one arm: [attrs] pattern [if guard] => body [,]
            a0 = k
            bars, guard_at, arrow, depth = [], -1, -1, 0
            while k < close:
                x = toks[k]
                if x.kind == 'punct' and x.text in OPEN:
                    depth += 1
                elif x.kind == 'punct' and x.text in CLOSE:
                    depth -= 1
                elif depth == 0 and x.kind == 'punct' and x.text == '=>':
                    arrow = k
                    break
                elif depth == 0 and guard_at < 0 and x.kind == 'punct' and x.text == '|' and k > a0:
                    bars.append(k)
                elif depth == 0 and guard_at < 0 and x.kind == 'ident' and x.text == 'if':
                    guard_at = k
                k += 1
            if arrow < 0:
                break
            b0 = arrow + 1
            if toks[b0].kind == 'punct' and toks[b0].text == '{':
                b1 = match_close(toks, b0)
                k = b1 + 1
                if k < close and toks[k].text == ',':
                    k += 1
                body_end = b1
            else:
                k, depth = b0, 0
                while k < close:
                    x = toks[k]
                    if x.kind == 'punct' and x.text in OPEN:
                        depth += 1
                    elif x.kind == 'punct' and x.text in CLOSE:
                        depth -= 1
                    elif depth == 0 and x.kind == 'punct' and x.text == ',':
                        break
                    k += 1
                body_end = k - 1
                if k < close:
                    k += 1
            if bars and guard_at > 0:
                flat = lambda lo, hi: ' '.join(tt.text for tt in toks[lo:hi])
                tail = flat(guard_at, body_end + 1)
                cuts = [a0] + [b + 1 for b in bars]
                ends = bars + [guard_at]
                alts = [flat(c, e) for c, e in zip(cuts, ends)]
                # keep the first alternative (and the original guard/body text) in place; drop the others from the pattern
                edits.append((toks[bars[0]].start, toks[guard_at].start, ' '))
                extra = ''.join(' %s %s,' % (alt, tail) for alt in alts[1:])
                # after the arm (after its trailing comma if any, else add one)
                last = toks[k - 1]
                if last.text == ',' and k - 1 > body_end:
                    edits.append((last.end, last.end, extra))
                else:
                    edits.append((toks[body_end].end, toks[body_end].end, ',' + extra))
    if not edits:
        return text, []
    edits.sort()
    out, pos, marks = [], 0, []
    for (a, b, r) in edits:
        if a < pos:
            continue  # nested match inside a duplicated arm: the outer expansion wins, the inner one is left as is
        out.append(text[pos:a])
        marks.append(sum(len(x) for x in out))
        out.append(r)
        pos = b
    out.append(text[pos:])
    return ''.join(out), marks


class SourceFile:
    def __init__(self, path: str, text: str):
        self.path = path
        text, self.r24_marks = desugar_orpat_guards(text)
        self.text = text
        self.toks = lex(text)
        self.items = parse_items(text, self.toks, 0, len(self.toks))

    def line_of(self, off: int) -> int:
        return self.text.count('\n', 0, off) + 1

    def find(self, path: str, nth: int = 0) -> Item:
        """path: 'fn_name' | 'Type::fn_name' | 'Trait for Type::fn_name' | 'struct Name' | 'mod::...'."""
        want_kind = None
        m = re.match(r'(struct|enum|const|static|type|fn|trait|impl) (.*)$', path)
        if m:
            want_kind, path = m.group(1), m.group(2)
        parts = [p.strip() for p in path.split('::')] if ' for ' not in path else None
        if parts is None:
            # "Trait for Type::name"
            head, _, last = path.rpartition('::')
            parts = [head.strip(), last.strip()]
        found = []

        def walk(items, idx):
            for it in items:
                nm = it.name
                if idx == len(parts) - 1:
                    if nm == parts[idx] and (want_kind is None or it.kind == want_kind) and \
                            (want_kind is not None or it.kind in ('fn', 'struct', 'enum', 'const', 'static', 'type', 'trait')):
                        found.append(it)
                else:
                    if it.kind in ('impl', 'mod', 'trait') and nm == parts[idx]:
                        walk(it.children, idx + 1)
                if it.kind == 'mod' and idx == 0 and it.name != 'tests':
                    pass
        walk(self.items, 0)
        if len(found) <= nth:
            raise KeyError('%s: item %r not found (found %d)' % (self.path, path, len(found)))
        return found[nth]


_NOT_BINDING = {'mut', 'ref', 'self', 'Self', 'true', 'false', 'box', 'if', 'else', 'let', 'in', 'move', 'dyn', 'impl', 'as', 'crate', 'super'}


def _pattern_idents(toks: List[Tok], a: int, b: int) -> List[str]:
    """Identifiers bound by the pattern toks[a:b]: lower-case identifiers that are not path segments, constructors or field names."""
    out = []
    for k in range(a, b):
        t = toks[k]
        if t.kind != 'ident' or t.text in _NOT_BINDING or not (t.text[0].islower() or t.text[0] == '_'):
            continue
        nxt = toks[k + 1].text if k + 1 < len(toks) else ''
        prv = toks[k - 1].text if k > 0 else ''
        if nxt in ('::', '(', '{', '!') or prv == '::':
            continue
        if nxt == ':' and k + 1 < b:          # `Struct { field: binding }`: the field name is not a binding
            continue
        if t.text == '_':
            out.append('_')
            continue
        out.append(t.text)
    return out


def binding_names(fn_text: str) -> List[str]:
    """The names a function binds, in source order: parameters, `let` / `if let` / `while let` patterns, `for` patterns, closure
    parameters.  (Match-arm bindings are not collected.)  Used to recognise a pure renaming of locals (rule R28)."""
    try:
        toks = lex(fn_text)
    except LexError:
        return []
    n = len(toks)
    names: List[Tuple[int, str]] = []
    # parameters
    i = 0
    while i < n and not (toks[i].kind == 'ident' and toks[i].text == 'fn'):
        i += 1
    while i < n and toks[i].text != '(':
        i += 1
    if i < n:
        close = match_close(toks, i)
        k = i + 1
        start = k
        depth = 0
        while k <= close:
            t = toks[k]
            if t.kind == 'punct' and t.text in ('(', '[', '{', '<'):
                depth += 1
            elif t.kind == 'punct' and t.text in (')', ']', '}', '>') and k != close:
                depth -= 1
            if (t.text == ',' and depth == 0) or k == close:
                # parameter start..k: the pattern is what precedes the first top-level ':'
                c = start
                d2 = 0
                while c < k and not (toks[c].text == ':' and d2 == 0):
                    if toks[c].text in ('(', '['):
                        d2 += 1
                    elif toks[c].text in (')', ']'):
                        d2 -= 1
                    c += 1
                for nm in _pattern_idents(toks, start, c):
                    names.append((start, nm))
                start = k + 1
            k += 1
        body_lo = close + 1
    else:
        body_lo = 0
    closures = {c.bar_tok: c for c in find_closures(toks, body_lo, n)}
    k = body_lo
    while k < n:
        t = toks[k]
        if t.kind == 'ident' and t.text == 'let':
            e = k + 1
            d = 0
            while e < n:
                x = toks[e]
                if x.kind == 'punct':
                    if x.text in OPEN:
                        d += 1
                    elif x.text in CLOSE:
                        if d == 0:
                            break
                        d -= 1
                    elif d == 0 and x.text in ('=', ';'):
                        break
                    elif d == 0 and x.text == ':' :
                        break
                e += 1
            for nm in _pattern_idents(toks, k + 1, e):
                names.append((k, nm))
        elif t.kind == 'ident' and t.text == 'for' and k + 1 < n and toks[k + 1].text != '<':
            e = k + 1
            d = 0
            while e < n and not (toks[e].kind == 'ident' and toks[e].text == 'in' and d == 0):
                if toks[e].text in OPEN:
                    d += 1
                elif toks[e].text in CLOSE:
                    d -= 1
                e += 1
            for nm in _pattern_idents(toks, k + 1, e):
                names.append((k, nm))
        elif k in closures and t.text == '|':
            c = closures[k]
            start = k + 1
            d = 0
            for q in range(k + 1, c.params_end_tok + 1):
                x = toks[q]
                if x.text in ('(', '[', '<'):
                    d += 1
                elif x.text in (')', ']', '>'):
                    d -= 1
                if (x.text == ',' and d == 0) or q == c.params_end_tok:
                    cc = start
                    d2 = 0
                    while cc < q and not (toks[cc].text == ':' and d2 == 0):
                        if toks[cc].text in ('(', '['):
                            d2 += 1
                        elif toks[cc].text in (')', ']'):
                            d2 -= 1
                        cc += 1
                    for nm in _pattern_idents(toks, start, cc):
                        names.append((start, nm))
                    start = q + 1
        k += 1
    names.sort(key=lambda p: p[0])
    return [nm for (_, nm) in names]


def renaming(old: List[str], new: List[str]) -> dict:
    """{old name: new name} when `new` is `old` with some bindings consistently renamed (same number of bindings, in the same order);
    {} otherwise.  A name that still exists is never mapped (a reordering is not a renaming)."""
    if len(old) != len(new) or old == new:
        return {}
    m = {}
    for a, b in zip(old, new):
        if a == b:
            continue
        if a == '_' or b == '_':
            continue
        if m.get(a, b) != b:
            return {}
        m[a] = b
    old_set, new_set = set(old), set(new)
    for a, b in m.items():
        if a in new_set or b in old_set:
            return {}
    # positions that kept their name must not use a mapped name
    return m
