"""Kani harnesses: complete finite-domain checks and bounded (labelled) byte-level stand-ins."""
from __future__ import annotations
import os, subprocess

VERIF = os.path.dirname(os.path.dirname(os.path.abspath(__file__)))


def version() -> str:
    return 'kani 0.68.0 / cbmc 6.11.0'


def run_for_property(pid, tier):
    return []
