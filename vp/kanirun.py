"""Kani harnesses (thorough tier only): complete finite-domain checks and BOUNDED byte-level stand-ins (never counted as proved).

The harness crate /verif/kani includes the real dependency-free source files of typstyle-core by `#[path]` from /repo's working
tree.  A harness that fails is reported as a violation with Kani's failing check; a harness that times out or cannot be built
is reported as such in the evidence and never as an alarm."""
from __future__ import annotations
import os, re, shutil, subprocess, time

VERIF = os.path.dirname(os.path.dirname(os.path.abspath(__file__)))
REPO = os.environ.get('VP_REPO', '/repo')

# harness -> (kind, what it covers, bound, timeout seconds)
HARNESSES = {
    'complete_context': ('complete', 'pretty/context.rs Mode::is_* and Context::{with_mode,with_mode_if,suppress_breaks}', 'full domain (4 modes x 4 modes x 2 x 2)', 300),
    'complete_bool_replace': ('complete', 'ext.rs BoolExt::replace', 'full domain', 300),
    'bounded_trim_range': ('bounded', 'utils.rs trim_range: no panic, result inside the request, on char boundaries', 'all valid UTF-8 strings of <= 3 bytes, all ranges on boundaries', 900),
    'bounded_count_spaces': ('bounded', 'utils.rs count_spaces_after_last_newline: no panic', 'all valid UTF-8 strings of <= 3 bytes, all boundary positions', 900),
    'bounded_linebreaks': ('bounded', 'ext.rs has_linebreak / count_linebreaks == Typst newline count', 'all valid UTF-8 strings of <= 3 bytes', 900),
    # (bounded_strip_trailing_whitespace exists in the crate but CBMC gives no verdict within 25 min even for 2 bytes -- String
    #  allocation; C11 rests on the Verus proof alone)
}
BY_PROPERTY = {
    'C01': ['complete_context', 'complete_bool_replace'],
    'C04': ['complete_context'],
    'C05': ['bounded_trim_range', 'bounded_count_spaces', 'bounded_linebreaks'],
    'C06': ['bounded_linebreaks'],
    'C08': ['bounded_linebreaks'],
    'C13': ['bounded_trim_range', 'bounded_count_spaces'],
}


def version() -> str:
    return 'kani 0.68.0 / cbmc 6.11.0'


def run_for_property(pid, tier):
    if tier != 'thorough' or pid not in BY_PROPERTY:
        return []
    if os.path.realpath(REPO) != '/repo':
        return [{'harness': h, 'target': HARNESSES[h][1], 'kind': HARNESSES[h][0], 'bound': HARNESSES[h][2], 'status': 'skipped',
                 'note': 'the harness crate includes /repo by path; checks are running on a scratch copy'} for h in BY_PROPERTY[pid]]
    d = os.path.join(VERIF, 'kani')
    lock = os.path.join(REPO, 'Cargo.lock')
    if os.path.exists(lock) and not os.path.exists(os.path.join(d, 'Cargo.lock')):
        shutil.copy(lock, os.path.join(d, 'Cargo.lock'))
    env = dict(os.environ, CARGO_NET_OFFLINE='true', CARGO_TARGET_DIR=os.path.join(VERIF, 'build', 'kani-target'))
    out = []
    for h in BY_PROPERTY[pid]:
        kind, target, bound, tmo = HARNESSES[h]
        t0 = time.time()
        rec = {'harness': h, 'target': target, 'kind': kind, 'bound': bound, 'cmd': '(cd kani && CARGO_NET_OFFLINE=true cargo kani --harness %s)' % h}
        try:
            p = subprocess.run(['cargo', 'kani', '--harness', h], cwd=d, env=env, capture_output=True, text=True, timeout=tmo)
            txt = p.stdout + p.stderr
            if 'VERIFICATION:- SUCCESSFUL' in txt:
                rec['status'] = 'ok'
                m = re.search(r'\*\* (\d+) of (\d+) failed', txt)
                if m:
                    rec['checks'] = int(m.group(2))
            elif 'VERIFICATION:- FAILED' in txt:
                rec['status'] = 'failed'
                fails = re.findall(r'Check \d+: (\S+)\s+- Status: FAILURE\s+- Description: "([^"]*)"\s+- Location: ([^\n]*)', txt)
                rec['property'] = '; '.join('%s (%s) at %s' % (a, b, c.strip()) for a, b, c in fails[:5])
                rec['output'] = txt[-4000:]
            else:
                rec['status'] = 'error'
                rec['note'] = txt[-600:]
        except subprocess.TimeoutExpired:
            rec['status'] = 'timeout'
            rec['note'] = 'no verdict within %d s' % tmo
        rec['seconds'] = round(time.time() - t0, 1)
        out.append(rec)
    return out
