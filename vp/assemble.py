"""Assemble a single Verus file for one unit from the unit template, the spec library, the shims,
the sidecar contracts and the *verbatim* text of the functions in /repo's working tree.

Every piece of output text carries its origin, so each Verus diagnostic can be mapped back to either
a repo line or a named contract clause.
"""
from __future__ import annotations
import copy, hashlib, json, os, re
from dataclasses import dataclass, field
from typing import Dict, List, Optional, Tuple

from rustlex import SourceFile, find_loops, find_closures, match_close, lex, LexError
from rustlex import binding_names as rustlex_binding_names, renaming as rustlex_renaming
from contracts import FnContract, Clause, ClauseBlock, load_all, ContractError

REPO = os.environ.get('VP_REPO', '/repo')
VERIF = os.path.dirname(os.path.dirname(os.path.abspath(__file__)))


class LostAnchor(Exception):
    """An anchor the sidecar relies on is not present in the current source: undecided, never an alarm."""


@dataclass
class Seg:
    text: str
    origin: dict


@dataclass
class FnInfo:
    unit: str
    file: str
    item: str
    mode: str                  # body | stub | item
    line_start: int
    line_end: int
    sha256: str
    contract: Optional[FnContract]
    clauses: List[Clause] = field(default_factory=list)
    n_asserts: int = 0
    proof_blocks: List[Tuple[str, int]] = field(default_factory=list)   # (vc loc, number of asserts)
    rewrites: List[str] = field(default_factory=list)
    lost: List[str] = field(default_factory=list)     # annotations whose anchor is gone in the current source (left out)
    auto_added: bool = False                          # helper pulled in automatically (no contract)
    locals: List[str] = field(default_factory=list)   # names bound by the function, in source order (parameters, let/for patterns, closure parameters)
    renamed: Dict[str, str] = field(default_factory=dict)   # R28: bindings renamed w.r.t. the baseline; the contract text was renamed with them
    assumed_clauses: List[str] = field(default_factory=list)   # contract clauses that are assumed, not proved, for this function
    gen_start: int = 0         # byte offsets in the generated file
    gen_end: int = 0
    verus_name: str = ''       # module path name Verus reports


@dataclass
class Assembled:
    unit: str
    text: str
    segs: List[Tuple[int, int, dict]]      # (start, end, origin) byte offsets into text (utf-8 bytes)
    fns: List[FnInfo]
    includes: List[str]
    trusted: List[str]

    def origin_at(self, byte_off: int) -> dict:
        lo, hi = 0, len(self.segs) - 1
        while lo <= hi:
            mid = (lo + hi) // 2
            s, e, o = self.segs[mid]
            if byte_off < s:
                hi = mid - 1
            elif byte_off >= e:
                lo = mid + 1
            else:
                return o
        return {'kind': 'unknown'}

    def fn_at(self, byte_off: int) -> Optional[FnInfo]:
        for f in self.fns:
            if f.gen_start <= byte_off < f.gen_end:
                return f
        return None


_src_cache: Dict[str, SourceFile] = {}


def source(file: str) -> SourceFile:
    p = os.path.join(REPO, file)
    if p not in _src_cache:
        try:
            _src_cache[p] = SourceFile(file, open(p, encoding='utf-8').read())
        except FileNotFoundError:
            raise LostAnchor('source file %s is gone' % file)
        except LexError as e:
            raise LostAnchor('cannot lex %s: %s' % (file, e))
    return _src_cache[p]


# ---------------------------------------------------------------------------------------------
# automatic macro rewrites (rule R5) -- purely syntactic, logged per instance
_LOG_MACROS = {'error', 'warn', 'info', 'debug', 'trace'}


def _macro_edits(sf: SourceFile, lo_tok: int, hi_tok: int) -> List[Tuple[int, int, str, str]]:
    toks = sf.toks
    edits = []
    i = lo_tok
    while i < hi_tok - 2:
        t = toks[i]
        if t.kind == 'ident' and toks[i + 1].text == '!' and toks[i + 2].text in ('(', '[', '{') and \
                (i == 0 or toks[i - 1].text not in ('::', '.')):
            name = t.text
            close = match_close(toks, i + 2)
            inner = sf.text[toks[i + 2].end:toks[close].start]
            rep = None
            if name in _LOG_MACROS:
                rep = 'vp_log()'
            elif name == 'bail':
                rep = 'return Err(vp_anyhow())'
                # the format arguments are still evaluated (they take part in type inference and may have preconditions)
                ma = re.match(r'\s*"(?:[^"\\]|\\.)*"\s*,\s*(.+?)\s*,?\s*$', inner, re.S)
                if ma and not re.search(r'(?<![=!<>])=(?!=)', ma.group(1)):
                    rep = '{ let _ = (%s,); return Err(vp_anyhow()) }' % ma.group(1)
            elif name == 'format':
                rep = 'vp_format()'
            elif name in ('print', 'println'):
                m = re.match(r'\s*"\{\}"\s*,\s*(.+?)\s*$', inner, re.S)
                if m:
                    rep = ('vp_print' if name == 'print' else 'vp_println') + '(&' + m.group(1) + ')'
                elif re.match(r'\s*"\{:#\?\}"\s*,', inner):
                    rep = 'vp_debug_print()'
                else:
                    rep = 'vp_print_other()'     # has `requires false`: any other print is an obligation failure
            if rep is not None:
                edits.append((t.start, toks[close].end, rep, 'R5:%s!' % name))
                i = close + 1
                continue
        # rule R15: `X.extension() == Some("typ".as_ref())` -> `X.vp_ext_is_typ()` (OsStr comparison has no Verus spec)
        if t.text == '.' and i + 12 < hi_tok and [x.text for x in toks[i + 1:i + 13]] == \
                ['extension', '(', ')', '==', 'Some', '(', '"typ"', '.', 'as_ref', '(', ')', ')']:
            edits.append((t.start, toks[i + 12].end, '.vp_ext_is_typ()', 'R15:extension-is-typ'))
            i += 13
            continue
        # rule R14: fully qualified std paths -> the shim module vp_std
        if t.kind == 'ident' and t.text == 'std' and toks[i + 1].text == '::' and toks[i + 2].text in ('fs', 'io', 'env') \
                and (i == 0 or toks[i - 1].text != '::'):
            edits.append((t.start, t.end, 'vp_std', 'R14:std::%s' % toks[i + 2].text))
        i += 1
    return edits


def _apply_edits(base: str, base_off: int, edits: List[Tuple[int, int, str, dict]], default_origin_fn) -> List[Seg]:
    """edits: (abs_start, abs_end, replacement, origin).  Returns segments for base text with edits applied."""
    edits = sorted(edits, key=lambda e: (e[0], e[1]))
    out: List[Seg] = []
    pos = base_off
    end = base_off + len(base)
    for (s, e, rep, org) in edits:
        if s < pos:
            raise LostAnchor('overlapping rewrites at offset %d (%r)' % (s, rep[:40]))
        if s > pos:
            out.append(Seg(base[pos - base_off:s - base_off], default_origin_fn(pos)))
        if rep:
            out.append(Seg(rep, org))
        pos = e
    if pos < end:
        out.append(Seg(base[pos - base_off:], default_origin_fn(pos)))
    return out


_DROP_ATTR = re.compile(r'#\[(derive|cfg_attr|allow|doc|inline|must_use|command|arg|cfg)\b')


def _strip_attrs(sf: SourceFile, it, keep_derive: Optional[str]) -> List[Tuple[int, int, str, str]]:
    """Remove outer attributes on an item (rule R7); optionally re-add a filtered derive."""
    toks = sf.toks
    edits = []
    # tokens from item start up to keyword
    i = 0
    while i < len(toks) and toks[i].start < it.start:
        i += 1
    while i < it.kw:
        if toks[i].text == '#' and toks[i + 1].text == '[':
            close = match_close(toks, i + 1)
            edits.append((toks[i].start, toks[close].end, '', 'R7:attr'))
            i = close + 1
        else:
            i += 1
    return edits


def _inner_attr_edits(sf: SourceFile, lo_tok: int, hi_tok: int) -> List[Tuple[int, int, str, str]]:
    """Remove #[...] attributes inside a struct/enum body (clap field attributes, serde) -- rule R7."""
    toks = sf.toks
    edits = []
    i = lo_tok
    while i < hi_tok:
        if toks[i].text == '#' and toks[i + 1].text == '[':
            close = match_close(toks, i + 1)
            edits.append((toks[i].start, toks[close].end, '', 'R7:attr'))
            i = close + 1
        else:
            i += 1
    return edits


def _anchor_regex(needle: str):
    """Anchors are matched on the token sequence, not the layout: rustfmt re-wrapping a call chain must not lose them."""
    parts = re.findall(r'\w+|\s+|[^\w\s]', needle)
    out = []
    prev_word = False
    pending_ws = False
    for t in parts:
        if t.isspace():
            pending_ws = True
            continue
        is_word = bool(re.match(r'\w', t))
        if out:
            out.append(r'\s+' if (pending_ws and prev_word and is_word) else r'\s*')
        out.append(re.escape(t))
        prev_word = is_word
        pending_ws = False
    lead = needle[:len(needle) - len(needle.lstrip())]
    trail = needle[len(needle.rstrip()):]
    return re.compile(re.escape(lead) + ''.join(out) + re.escape(trail))


def _find_nth(hay: str, needle: str, nth, what: str) -> List[Tuple[int, int]]:
    idxs = [(m.start(), m.end()) for m in _anchor_regex(needle).finditer(hay)]
    if not idxs:
        raise LostAnchor('%s: anchor %r not found' % (what, needle))
    if nth == 'all':
        return idxs
    if nth is None:
        if len(idxs) != 1:
            raise LostAnchor('%s: anchor %r matches %d times, expected exactly one' % (what, needle, len(idxs)))
        return [idxs[0]]
    if nth >= len(idxs):
        raise LostAnchor('%s: anchor %r has only %d matches' % (what, needle, len(idxs)))
    return [idxs[nth]]


import threading
_TLS = threading.local()     # per-thread: units are assembled concurrently


def set_drops(clauses: set, inserts: set):
    """(fn_label, clause label) pairs left out (rule R25) and (fn_label, vc location) proof blocks left out (rule R26)"""
    _TLS.clauses, _TLS.inserts = clauses, inserts


def set_no_decreases(labels: set):
    """functions that became part of a recursion cycle through a helper pulled in without a contract (R27): they get
    `exec_allows_no_decreases_clause` (termination through the new cycle is not claimed)"""
    _TLS.nodecr = set(labels)


def _no_decreases() -> set:
    return getattr(_TLS, 'nodecr', set())


def set_exclude_groups(groups: set):
    _TLS.xgroups = set(groups)


def _xgroups() -> set:
    return getattr(_TLS, 'xgroups', set())


def _drop_clauses() -> set:
    return getattr(_TLS, 'clauses', set())


def _drop_inserts() -> set:
    return getattr(_TLS, 'inserts', set())


def _render_block(blk: ClauseBlock, indent: str, fn_label: str, mode: str = 'body') -> List[Seg]:
    segs = []
    if mode != 'stub' and _xgroups() and any(c.group in _xgroups() for c in blk.clauses):
        # a group of clauses this unit leaves to another unit (the stub at call sites keeps them)
        blk = ClauseBlock([c for c in blk.clauses if c.group not in _xgroups()])
    if mode != 'stub' and any(c.assumed for c in blk.clauses):
        # assumed clauses exist only at the call sites (contract-only stubs); at the definition they are not claimed
        blk = ClauseBlock([c for c in blk.clauses if not c.assumed])
    if _drop_clauses():
        kept = ClauseBlock([c for c in blk.clauses if (fn_label, c.label) not in _drop_clauses()])
        blk = kept
    for text, cl in blk.render(indent):
        if cl is None:
            segs.append(Seg(text, {'kind': 'vc-kw'}))
        else:
            segs.append(Seg(text, {'kind': 'clause', 'fn': fn_label, 'label': cl.label, 'tags': cl.tags,
                                   'vc': '%s:%d' % (cl.vc_file, cl.vc_line), 'ckind': cl.kind, 'expr': cl.expr}))
    return segs


def _join(segs: List[Seg]) -> str:
    return ''.join(s.text for s in segs)


_BASE = {}


def _baseline() -> dict:
    if 'j' not in _BASE:
        try:
            _BASE['j'] = json.load(open(os.path.join(VERIF, 'baseline', 'obligations.json')))
        except (FileNotFoundError, json.JSONDecodeError):
            _BASE['j'] = {}
    return _BASE['j']


def _baseline_locals() -> dict:
    return _baseline().get('_fn_locals', {})


def _baseline_sha() -> dict:
    return _baseline().get('_fn_sha', {})


def _sub_names(text, ren: dict):
    if text is None or not isinstance(text, str):
        return text
    return re.sub(r'(?<![A-Za-z0-9_.])(%s)(?![A-Za-z0-9_(])' % '|'.join(re.escape(k) for k in sorted(ren, key=len, reverse=True)),
                  lambda m: ren[m.group(1)], text)


def rename_contract(c: FnContract, ren: dict) -> FnContract:
    """R28: a copy of the contract block with every free occurrence of a renamed binding replaced (identifier-wise; not after `.`, not a
    call).  Applies to clauses, loop/closure blocks, inserted proof text and anchors alike -- anchors quote the source, which was renamed."""
    c2 = copy.deepcopy(c)

    def blk(b):
        for cl in b.clauses:
            cl.expr = _sub_names(cl.expr, ren)
    # in the signature block the name of the return value (@ret) is the contract's own, even if a local has the same name
    ret_names = set(re.findall(r'[A-Za-z_][A-Za-z0-9_]*', c.ret or ''))
    full = ren
    ren = {k: v for k, v in full.items() if k not in ret_names}
    if ren:
        blk(c2.sig)
    ren = full
    for l in c2.loops.values():
        blk(l.block)
        l.ghost = _sub_names(l.ghost, ren)
        l.iterexpr = _sub_names(l.iterexpr, ren)
    for k in c2.closures.values():
        blk(k.block)
        k.params = _sub_names(k.params, ren)
        k.proof = _sub_names(k.proof, ren)
    for ins in c2.inserts:
        ins.text = _sub_names(ins.text, ren)
        if isinstance(ins.arg, tuple):
            ins.arg = tuple(_sub_names(x, ren) if isinstance(x, str) else x for x in ins.arg)
        elif isinstance(ins.arg, str):
            ins.arg = _sub_names(ins.arg, ren)
    for r in c2.replaces:
        r.old = _sub_names(r.old, ren)
        r.new = _sub_names(r.new, ren)
    c2.stubsig = _sub_names(c2.stubsig, ren)
    c2.cells = [ren.get(x, x) for x in c2.cells]
    for k in c2.closures.values():
        k.after = _sub_names(k.after, ren)
    for h in c2.hoists:
        h.anchor = _sub_names(h.anchor, ren)
        h.proof = _sub_names(h.proof, ren)
        h.items = [(a_, _sub_names(b_, ren) if isinstance(b_, str) else b_, c_) for (a_, b_, c_) in h.items]
    return c2


def extract_fn(unit: str, file: str, item: str, mode: str, contracts, canary: bool, opts: dict) -> Tuple[List[Seg], FnInfo]:
    sf = source(file)
    try:
        it = sf.find(item)
    except KeyError as e:
        raise LostAnchor(str(e))
    c: Optional[FnContract] = contracts.get((file, item))
    fn_label = '%s::%s' % (file, item)
    raw = sf.text[it.start:it.end]
    info = FnInfo(unit, file, item, mode, sf.line_of(it.start), sf.line_of(it.end - 1),
                  hashlib.sha256(raw.encode()).hexdigest(), c)
    if it.kind == 'fn':
        info.locals = rustlex_binding_names(raw)
        base = _baseline_locals().get(fn_label)
        if c is not None and base is not None and _baseline_sha().get(fn_label) != info.sha256:
            ren = rustlex_renaming(base, info.locals)
            if ren:
                # R28: the changed function binds the same things in the same order under other names -- the contract text follows
                c = rename_contract(c, ren)
                info.contract = c
                info.renamed = ren
                info.rewrites.append('R28:contract text follows renamed bindings %s' % ', '.join('%s->%s' % kv for kv in sorted(ren.items())))
    if any(it.start <= m < it.end for m in getattr(sf, 'r24_marks', [])):
        info.rewrites.append('R24:or-pattern with guard expanded')
    toks = sf.toks

    def repo_origin(off):
        return {'kind': 'repo', 'file': file, 'line': sf.line_of(off), 'fn': fn_label}

    if it.kind != 'fn':
        # struct / enum / const / type: verbatim with attributes filtered
        edits = [(s, e, r, {'kind': 'rewrite', 'rule': rule}) for (s, e, r, rule) in _strip_attrs(sf, it, None)]
        if it.body_open_tok >= 0:
            edits += [(s, e, r, {'kind': 'rewrite', 'rule': rule})
                      for (s, e, r, rule) in _inner_attr_edits(sf, it.body_open_tok, it.body_close_tok)]
        segs = []
        if opts.get('derive'):
            segs.append(Seg('#[derive(%s)]\n' % opts['derive'], {'kind': 'rewrite', 'rule': 'R7:derive'}))
        if opts.get('attr'):
            segs.append(Seg(opts['attr'] + '\n', {'kind': 'rewrite', 'rule': 'R7:attr'}))
        if opts.get('sub'):
            # purely textual substitution inside a non-function item (logged), e.g. `[&str;` -> `[&'static str;`
            o_, _, n_ = opts['sub'].partition('=>')
            p0 = raw.find(o_)
            if p0 < 0:
                raise LostAnchor('%s: item substitution anchor %r not found' % (fn_label, o_))
            edits.append((it.start + p0, it.start + p0 + len(o_), n_, {'kind': 'rewrite', 'rule': 'R7:sub'}))
        segs += _apply_edits(raw, it.start, edits, repo_origin)
        segs.append(Seg('\n', {'kind': 'glue'}))
        info.rewrites = ['R7:attrs-filtered'] + (['R7:sub %s' % opts['sub']] if opts.get('sub') else [])
        return segs, info

    if it.body_open_tok < 0 and mode != 'decl':
        raise LostAnchor('%s has no body' % fn_label)
    if mode == 'decl':
        # trait method declaration: signature + contract + ';'
        semi = sf.text.rfind(';', it.start, it.end)
        edits0: List[Tuple[int, int, str, dict]] = []
        if c and c.ret:
            m = re.search(r'->\s*', sf.text[it.start:semi])
            if not m:
                raise LostAnchor('%s: @ret but no return type' % fn_label)
            a0 = it.start + m.end()
            edits0.append((a0, a0, '(%s: ' % c.ret, {'kind': 'rewrite', 'rule': 'A1:ret'}))
            edits0.append((semi, semi, ')', {'kind': 'rewrite', 'rule': 'A1:ret'}))
        segs = _apply_edits(sf.text[it.start:semi], it.start, edits0, repo_origin)
        if c and c.sig.clauses:
            segs.append(Seg('\n', {'kind': 'glue'}))
            segs += _render_block(c.sig, '    ', fn_label)
            info.clauses += c.sig.clauses
        segs.append(Seg(';\n', {'kind': 'glue'}))
        return segs, info

    edits: List[Tuple[int, int, str, dict]] = []

    def rw(rule):
        return {'kind': 'rewrite', 'rule': rule, 'fn': fn_label}

    # --- attributes on the fn: dropped (R7) and replaced by requested verifier attributes
    for (s, e, r, rule) in _strip_attrs(sf, it, None):
        edits.append((s, e, r, rw(rule)))
    head: List[Seg] = []
    if c:
        for a in c.attrs:
            head.append(Seg(a + '\n', {'kind': 'vc-attr', 'fn': fn_label}))
    if mode == 'stub':
        head.append(Seg('#[verifier::external_body]\n', {'kind': 'stub-attr', 'fn': fn_label}))
    elif fn_label in _no_decreases() and not (c and any('exec_allows_no_decreases_clause' in a_ for a_ in c.attrs)):
        head.append(Seg('#[verifier::exec_allows_no_decreases_clause]\n', rw('R27:no-decreases')))
        info.rewrites.append('R27:no-decreases')

    # --- signature: name the return value (A1)
    sig_lo, sig_hi = it.kw, it.body_open_tok
    if c and c.ret:
        d = 0
        arrow = None
        for k in range(sig_lo, sig_hi):
            tx = toks[k].text
            if toks[k].kind == 'punct':
                if tx in ('(', '['):
                    d += 1
                elif tx in (')', ']'):
                    d -= 1
                elif tx == '->' and d == 0:
                    arrow = k
                    break
        if arrow is None:
            raise LostAnchor('%s: @ret but no return type' % fn_label)
        # type ends at `where` (depth 0) or body
        end_k = sig_hi
        for k in range(arrow + 1, sig_hi):
            if toks[k].kind == 'ident' and toks[k].text == 'where':
                end_k = k
                break
        ty_s, ty_e = toks[arrow + 1].start, toks[end_k - 1].end
        edits.append((ty_s, ty_s, '(%s: ' % c.ret, rw('A1:ret')))
        edits.append((ty_e, ty_e, ')', rw('A1:ret')))
    # --- mut self (R1); for a contract-only stub the `mut` is simply dropped
    if mode == 'stub' and not (c and c.mutself):
        for k in range(sig_lo, sig_hi - 1):
            if toks[k].text == 'mut' and toks[k + 1].text == 'self' and toks[k - 1].text != '&' and toks[k - 1].kind != 'lifetime':
                edits.append((toks[k].start, toks[k + 1].start, '', rw('R1')))
                break
    if c and c.mutself:
        found = False
        for k in range(sig_lo, sig_hi - 1):
            if toks[k].text == 'mut' and toks[k + 1].text == 'self':
                edits.append((toks[k].start, toks[k + 1].start, '', rw('R1')))
                found = True
                break
        if not found:
            raise LostAnchor('%s: @mutself but no `mut self`' % fn_label)

    body_open = toks[it.body_open_tok]
    body_close = toks[it.body_close_tok]

    # --- contract clauses before the body (A1)
    sig_segs: List[Seg] = []
    if c and c.sig.clauses:
        sig_segs.append(Seg('\n', {'kind': 'glue'}))
        sig_segs += _render_block(c.sig, '    ', fn_label, mode)
        info.clauses += [cl_ for cl_ in c.sig.clauses if mode == 'stub' or (not cl_.assumed and cl_.group not in _xgroups())]
        info.assumed_clauses = [cl_.label for cl_ in c.sig.clauses if cl_.assumed]

    if mode == 'stub':
        if c and c.stubsig:
            segs = head + [Seg(c.stubsig, {'kind': 'stubsig', 'fn': fn_label, 'vc': '%s:%d' % (c.vc_file, c.vc_line)})]
            info.rewrites.append('stubsig(hand-written signature)')
        else:
            sig_text = sf.text[it.start:body_open.start]
            segs = head + _apply_edits(sig_text, it.start, [e for e in edits if e[1] <= body_open.start], repo_origin)
        segs += sig_segs
        segs.append(Seg('{ unimplemented!() }\n', {'kind': 'stub-body', 'fn': fn_label}))
        return segs, info

    # ---------------- body mode
    blo, bhi = it.body_open_tok, it.body_close_tok
    if c and c.bodysig and c.stubsig:
        # rule R9:sig -- the signature is the hand-written one of the sidecar (the iterator types of the shim library in place of
        # `impl Iterator`); every other edit of the signature is dropped
        edits[:] = [e_ for e_ in edits if e_[0] >= body_open.start]
        edits.append((it.start, body_open.start, c.stubsig + ' ', rw('R9:sig')))
        info.rewrites.append('R9:sig(hand-written signature: shim iterator types)')
    # macros (R5)
    for (s, e, r, rule) in _macro_edits(sf, blo, bhi):
        edits.append((s, e, r, rw(rule)))
        info.rewrites.append(rule)
    # mut self body rename
    if c and c.mutself:
        for k in range(blo, bhi):
            if toks[k].kind == 'ident' and toks[k].text == 'self':
                edits.append((toks[k].start, toks[k].end, 'slf', rw('R1')))
        info.rewrites.append('R1')


    # rule R21: a `let` that shadows a parameter is renamed (Verus resolves a shadowed parameter name in `ensures`
    # to the local at `return` points); every later use in the enclosing block refers to the new binding.
    params = set()
    d = 0
    for k in range(sig_lo, sig_hi):
        tx = toks[k]
        if tx.kind == 'punct' and tx.text in ('(', '[', '<'):
            d += 1
        elif tx.kind == 'punct' and tx.text in (')', ']', '>'):
            d -= 1
        elif tx.kind == 'punct' and tx.text == '>>':
            d -= 2
        elif d == 1 and tx.kind == 'ident' and toks[k + 1].text == ':' and toks[k - 1].text in ('(', ',', 'mut'):
            params.add(tx.text)
    rename: Dict[int, str] = {}
    counters: Dict[str, int] = {}
    shadow_scopes: List[Tuple[str, int, int, str]] = []   # (name, from byte, to byte, new name) of R21 renames

    def resolve_names(text: str, pos: int) -> str:
        """`${x}` in an inserted proof block stands for the variable `x` as it resolves at the point of insertion (a `let` that
        shadows a parameter is renamed by R21; if the changed code no longer has that `let`, `${x}` is the parameter itself)"""
        def _r(mo):
            nm = mo.group(1)
            best = None
            for (n0, a0, z0, new0) in shadow_scopes:
                if n0 == nm and a0 <= pos < z0 and (best is None or a0 > best[0]):
                    best = (a0, new0)
            return best[1] if best else nm
        return re.sub(r'\$\{(\w+)\}', _r, text)
    k = blo + 1
    while k < bhi:
        if toks[k].kind == 'ident' and toks[k].text == 'let':
            q = k + 1
            if toks[q].text == 'mut':
                q += 1
            if toks[q].kind == 'ident' and toks[q].text in params and toks[q + 1].text in ('=', ':'):
                name = toks[q].text
                # end of the statement: ';' at depth 0 relative to the let
                dd = 0
                e = q
                while e < bhi:
                    te = toks[e]
                    if te.kind == 'punct' and te.text in ('(', '[', '{'):
                        dd += 1
                    elif te.kind == 'punct' and te.text in (')', ']', '}'):
                        dd -= 1
                    elif te.kind == 'punct' and te.text == ';' and dd == 0:
                        break
                    e += 1
                # end of the enclosing block
                dd = 0
                z = e
                while z < bhi:
                    tz = toks[z]
                    if tz.kind == 'punct' and tz.text in ('(', '[', '{'):
                        dd += 1
                    elif tz.kind == 'punct' and tz.text in (')', ']', '}'):
                        if dd == 0:
                            break
                        dd -= 1
                    z += 1
                counters[name] = counters.get(name, 0) + 1
                new_name = 'vp_%s%d' % (name, counters[name])
                rename[q] = new_name
                shadow_scopes.append((name, toks[e].start, toks[z].start, new_name))
                # closures that re-bind the name as a parameter shadow it themselves: leave them alone
                skip = []
                for cl0 in find_closures(toks, e, z):
                    if any(toks[w].kind == 'ident' and toks[w].text == name for w in range(cl0.bar_tok, cl0.params_end_tok + 1)):
                        skip.append((cl0.bar_tok, cl0.body_end_tok))
                for u in range(e, z):
                    if any(a0 <= u <= b0 for (a0, b0) in skip):
                        continue
                    if toks[u].kind == 'ident' and toks[u].text == name and toks[u - 1].text != '.':
                        # (a nested `let` of the same name later overrides this entry for its own range)
                        rename[u] = new_name
                info.rewrites.append('R21:%s' % name)
        k += 1
    # ... and a `for` pattern that re-binds a parameter name (uses inside the loop body refer to the loop variable)
    for lp0 in find_loops(toks, blo, bhi):
        if lp0.kw != 'for':
            continue
        dd = 0
        in_k = None
        for q0 in range(lp0.kw_tok + 1, lp0.open_tok):
            tq = toks[q0]
            if tq.kind == 'punct' and tq.text in ('(', '[', '{'):
                dd += 1
            elif tq.kind == 'punct' and tq.text in (')', ']', '}'):
                dd -= 1
            elif tq.kind == 'ident' and tq.text == 'in' and dd == 0:
                in_k = q0
                break
        if in_k is None:
            continue
        for q0 in range(lp0.kw_tok + 1, in_k):
            if toks[q0].kind == 'ident' and toks[q0].text in params and toks[q0 - 1].text not in ('::', '.'):
                name = toks[q0].text
                counters[name] = counters.get(name, 0) + 1
                new_name = 'vp_%s%d' % (name, counters[name])
                rename[q0] = new_name
                for u in range(lp0.open_tok, lp0.close_tok):
                    if toks[u].kind == 'ident' and toks[u].text == name and toks[u - 1].text != '.' and u not in rename:
                        rename[u] = new_name
                    elif toks[u].kind == 'ident' and toks[u].text == name and toks[u - 1].text != '.':
                        pass  # already claimed by an inner `let` shadow
                info.rewrites.append('R21:for %s' % name)
    for u, nm in sorted(rename.items()):
        edits.append((toks[u].start, toks[u].end, nm, rw('R21')))

    body_start_ins: List[Seg] = []
    if c and c.mutself:
        body_start_ins.append(Seg('\n        let mut slf = self;', rw('R1')))
    if canary:
        body_start_ins.append(Seg('\n        proof { assert(false); } // vacuity canary', {'kind': 'canary', 'fn': fn_label}))

    # loops (A2, R8)
    loops = find_loops(toks, blo, bhi)

    class _Txn:
        """an annotation whose anchor is lost is left out as a whole (rule R26): undo its partial edits, remember it"""
        def __enter__(self_t):
            self_t.n_edits, self_t.n_cl, self_t.n_pb, self_t.n_as, self_t.n_rw = len(edits), len(info.clauses), len(info.proof_blocks), info.n_asserts, len(info.rewrites)
            self_t.n_bs = len(body_start_ins)
            return self_t
        def __exit__(self_t, et, ev, tb):
            if et is not None and issubclass(et, LostAnchor):
                del edits[self_t.n_edits:]
                del body_start_ins[self_t.n_bs:]
                del info.clauses[self_t.n_cl:]
                del info.proof_blocks[self_t.n_pb:]
                del info.rewrites[self_t.n_rw:]
                info.n_asserts = self_t.n_as
                info.lost.append(str(ev))
                return True
            return False

    # rule R31: `RECV.unwrap_or_else(|e| BODY)` is replaced by its definition `match RECV { Ok(vp_v) => vp_v, Err(e) => BODY }`
    # (core::result::Result::unwrap_or_else; BODY must not `return` or use `?`).  The closure disappears, and with it the capture of
    # mutable locals that Verus rejects.
    # rule R32: `X OP= E;` on a user-defined type is its desugaring `X.METHOD(E);`
    inlined_closure_bars = set()
    if c and (c.inlines or c.opassigns):
        def _match_fwd(k0):
            d_ = 0
            for k_ in range(k0, bhi + 1):
                tx_ = toks[k_].text
                if toks[k_].kind == 'punct':
                    if tx_ in ('(', '[', '{'):
                        d_ += 1
                    elif tx_ in (')', ']', '}'):
                        d_ -= 1
                        if d_ == 0:
                            return k_
            return None
        def _match_back(k0):
            d_ = 0
            for k_ in range(k0, blo, -1):
                tx_ = toks[k_].text
                if toks[k_].kind == 'punct':
                    if tx_ in (')', ']', '}'):
                        d_ += 1
                    elif tx_ in ('(', '[', '{'):
                        d_ -= 1
                        if d_ == 0:
                            return k_
            return None
        def _stmt_end2(k0):
            d_ = 0
            for k_ in range(k0, bhi):
                tx_ = toks[k_].text
                if toks[k_].kind == 'punct':
                    if tx_ in ('(', '[', '{'):
                        d_ += 1
                    elif tx_ in (')', ']', '}'):
                        d_ -= 1
                        if d_ < 0:
                            return None
                    elif tx_ == ';' and d_ == 0:
                        return k_
            return None
        for comb in [x for x in c.inlines if x in ('unwrap_or_else', 'is_some_and')]:
          with _Txn():
            hits = [k for k in range(blo, bhi) if toks[k].text == comb and toks[k - 1].text == '.' and toks[k + 1].text == '(' and toks[k + 2].text in ('|', '||')]
            if not hits:
                raise LostAnchor('%s: @inline %s: no call found' % (fn_label, comb))
            for k in hits:
                close = _match_fwd(k + 1)
                bar2 = None
                for w in range(k + 3, close):
                    if toks[w].text == '|':
                        bar2 = w
                        break
                if close is None or bar2 is None:
                    raise LostAnchor('%s: @inline %s: unsupported closure' % (fn_label, comb))
                body_txt = sf.text[toks[bar2].end:toks[close].start]
                if re.search(r'\breturn\b|\?', body_txt):
                    raise LostAnchor('%s: @inline %s: closure body has `return` or `?`' % (fn_label, comb))
                pat = sf.text[toks[k + 2].end:toks[bar2].start].strip()
                # receiver: a postfix expression ending right before the `.`
                r = k - 2
                while True:
                    if toks[r].text in (')', ']'):
                        r = _match_back(r)
                        if r is None:
                            raise LostAnchor('%s: @inline %s: unsupported receiver' % (fn_label, comb))
                        r -= 1
                        if toks[r + 1].text == '(' and (toks[r].kind == 'ident' or toks[r].text == '>'):
                            continue
                        r += 1
                        break
                    if toks[r].kind == 'ident' and toks[r - 1].text in ('.', '::'):
                        r -= 2
                        continue
                    if toks[r].kind == 'ident':
                        break
                    raise LostAnchor('%s: @inline %s: unsupported receiver' % (fn_label, comb))
                edits.append((toks[r].start, toks[r].start, 'match ', rw('R31')))
                if comb == 'unwrap_or_else':
                    edits.append((toks[k - 1].start, toks[bar2].end, ' { Ok(vp_v) => vp_v, Err(%s) =>' % pat, rw('R31')))
                    edits.append((toks[close].start, toks[close].end, ' }', rw('R31')))
                else:   # Option::is_some_and(|v| BODY)  ==  match o { Some(v) => BODY, None => false }
                    edits.append((toks[k - 1].start, toks[bar2].end, ' { Some(%s) => {' % pat, rw('R31')))
                    edits.append((toks[close].start, toks[close].end, ' }, None => false }', rw('R31')))
                inlined_closure_bars.add(k + 2)
                info.rewrites.append('R31:%s inlined' % comb)
        for (op_, meth) in c.opassigns:
          with _Txn():
            hits = [k for k in range(blo, bhi) if toks[k].kind == 'punct' and toks[k].text == op_ and toks[k - 1].kind == 'ident']
            if not hits:
                raise LostAnchor('%s: @opassign %s: not found' % (fn_label, op_))
            for k in hits:
                end = _stmt_end2(k)
                if end is None:
                    raise LostAnchor('%s: @opassign %s: statement end not found' % (fn_label, op_))
                edits.append((toks[k - 1].end, toks[k].end, '.%s(' % meth, rw('R32')))
                edits.append((toks[end].start, toks[end].start, ')', rw('R32')))
                info.rewrites.append('R32:%s -> .%s()' % (op_, meth))

    # rule R32b (automatic): `X |= E;` on a plain local -- `bool |= bool`, which Verus does not support -- becomes
    # `{ let vp_or: bool = E; if vp_or { X = true; } }` (E is evaluated exactly once, as before).  Not applied where the sidecar
    # maps `|=` to a method (R32), and -- like R25-R27 -- only in functions whose text differs from the baseline.  If X is not a bool
    # the rewritten text does not type-check and the unit is undecided, as before.
    _changed_fn = _baseline_sha().get(fn_label) not in (None, info.sha256)
    if _changed_fn and not (c and any(op_ == '|=' for (op_, _m) in c.opassigns)):
        def _stmt_end3(k0):
            d_ = 0
            for k_ in range(k0, bhi):
                tx_ = toks[k_].text
                if toks[k_].kind == 'punct':
                    if tx_ in ('(', '[', '{'):
                        d_ += 1
                    elif tx_ in (')', ']', '}'):
                        d_ -= 1
                        if d_ < 0:
                            return None
                    elif tx_ == ';' and d_ == 0:
                        return k_
            return None
        for k in range(blo + 1, bhi):
            if toks[k].kind == 'punct' and toks[k].text == '|=' and toks[k - 1].kind == 'ident' and toks[k - 2].text in (';', '{', '}'):
                end = _stmt_end3(k)
                if end is None:
                    continue
                xname = toks[k - 1].text
                edits.append((toks[k - 1].start, toks[k].end, '{ let vp_or: bool =', rw('R32b')))
                edits.append((toks[end].start, toks[end].end, '; if vp_or { %s = true; } }' % xname, rw('R32b')))
                info.rewrites.append('R32b:%s |= .. -> if' % xname)

    # rule R29: a `let mut X = E;` that a closure captures mutably (a hard error in Verus) becomes `let X = VpCell::vp_new(E);`
    # (std::cell::Cell semantics: the closure then captures `&X`).  Reads become `X.vp_get()`, assignments `X.vp_set(E)`;
    # `X.replace(v)` resolves to the cell's own `replace` (same meaning as BoolExt::replace).  The cell's contract says NOTHING about
    # its content -- every read yields an arbitrary value -- so whatever is proved holds for every content (an over-approximation).
    if c and c.cells:
        def _stmt_end(k0):
            """index of the `;` that ends the statement starting at token k0 (depth 0)"""
            d_ = 0
            for k_ in range(k0, bhi):
                tx_ = toks[k_].text
                if toks[k_].kind == 'punct':
                    if tx_ in ('(', '[', '{'):
                        d_ += 1
                    elif tx_ in (')', ']', '}'):
                        d_ -= 1
                        if d_ < 0:
                            return None
                    elif tx_ == ';' and d_ == 0:
                        return k_
            return None
        for name in c.cells:
          with _Txn():
            found_let = False
            for k in range(blo, bhi):
                t = toks[k]
                if t.kind != 'ident' or t.text != name:
                    continue
                prev, nxt = toks[k - 1], toks[k + 1]
                if prev.text == 'mut' and toks[k - 2].text == 'let':
                    # declaration
                    eq = None
                    for k_ in range(k + 1, bhi):
                        if toks[k_].text == '=' and toks[k_].kind == 'punct':
                            eq = k_
                            break
                        if toks[k_].text == ';':
                            break
                    end = _stmt_end(k) if eq is not None else None
                    if eq is None or end is None or nxt.text == ':':
                        raise LostAnchor('%s: @cell %s: unsupported declaration' % (fn_label, name))
                    edits.append((prev.start, t.start, '', rw('R29')))
                    edits.append((toks[eq].end, toks[eq].end, ' VpCell::vp_new(', rw('R29')))
                    edits.append((toks[end].start, toks[end].start, ')', rw('R29')))
                    found_let = True
                elif prev.text in ('.', '::') or (prev.text == '&' and False):
                    continue
                elif prev.text == 'mut' or (nxt.kind == 'punct' and nxt.text in ('+=', '-=', '*=', '|=', '&=', '^=')):
                    raise LostAnchor('%s: @cell %s: unsupported use' % (fn_label, name))
                elif nxt.kind == 'punct' and nxt.text == '=':
                    end = _stmt_end(k)
                    if end is None:
                        raise LostAnchor('%s: @cell %s: assignment without end' % (fn_label, name))
                    edits.append((t.end, nxt.end, '.vp_set(', rw('R29')))
                    edits.append((toks[end].start, toks[end].start, ')', rw('R29')))
                elif nxt.text == '.' and toks[k + 2].text == 'replace' and toks[k + 3].text == '(':
                    continue
                else:
                    edits.append((t.end, t.end, '.vp_get()', rw('R29')))
            if not found_let:
                raise LostAnchor('%s: @cell %s: no `let mut %s`' % (fn_label, name, name))
            info.rewrites.append('R29:cell %s' % name)


    if c:
        for k, ls in sorted(c.loops.items()):
          with _Txn():
            if k >= len(loops):
                raise LostAnchor('%s: loop %d not found (function has %d loops)' % (fn_label, k, len(loops)))
            lp = loops[k]
            inv = _join(_render_block(ls.block, '            ', fn_label))
            inv_segs = _render_block(ls.block, '            ', fn_label)
            # `${x}` in an invariant: the variable `x` as it resolves inside the loop body (R21 renames shadowing lets)
            _lp_pos = toks[lp.open_tok].end
            inv = resolve_names(inv, _lp_pos)
            for sg_ in inv_segs:
                if '${' in sg_.text:
                    sg_.text = resolve_names(sg_.text, _lp_pos)
            info.clauses += [cl_ for cl_ in ls.block.clauses if cl_.group not in _xgroups()]
            open_t = toks[lp.open_tok]
            close_t = toks[lp.close_tok]
            if ls.desugar:
                if lp.kw != 'for':
                    raise LostAnchor('%s: loop %d is not a for loop' % (fn_label, k))
                # find `in` at depth 0
                d = 0
                in_k = None
                for q in range(lp.kw_tok + 1, lp.open_tok):
                    tx = toks[q]
                    if tx.kind == 'punct' and tx.text in ('(', '[', '{'):
                        d += 1
                    elif tx.kind == 'punct' and tx.text in (')', ']', '}'):
                        d -= 1
                    elif tx.kind == 'ident' and tx.text == 'in' and d == 0:
                        in_k = q
                        break
                if in_k is None:
                    raise LostAnchor('%s: loop %d: no `in`' % (fn_label, k))
                pat = sf.text[toks[lp.kw_tok + 1].start:toks[in_k - 1].end]
                itname = ls.ghost or ('vp_it%d' % k)
                conv = {'iter': '%s', 'into_iter': 'IntoIterator::into_iter(%s)', 'vec': '(%s).into_iter()'}[ls.desugar]
                # `for PAT in EXPR {`  ->  `{ let mut it = EXPR; loop INV { match it.next() { None => break, Some(PAT) => {`
                edits.append((toks[lp.kw_tok].start, toks[in_k].end, '{ let mut %s = %s' % (itname, conv.split('%s')[0]), rw('R8')))
                edits.append((open_t.start, open_t.start, conv.split('%s')[1] + '; loop\n', rw('R8')))
                # invariants go between `loop` and `{`
                loop_head: List[Seg] = inv_segs + [Seg('        { match %s.next() { Option::None => break, Option::Some(%s) => {' % (itname, pat), rw('R8'))]
                edits.append((open_t.start, open_t.end, ('SEGS', loop_head), rw('R8')))
                edits.append((close_t.start, close_t.end, '}}}}', rw('R8')))
                info.rewrites.append('R8:loop%d' % k)
            else:
                if ls.ghost:
                    if lp.kw != 'for':
                        raise LostAnchor('%s: loop %d ghost name on non-for loop' % (fn_label, k))
                    d = 0
                    in_k = None
                    for q in range(lp.kw_tok + 1, lp.open_tok):
                        tx = toks[q]
                        if tx.kind == 'punct' and tx.text in ('(', '[', '{'):
                            d += 1
                        elif tx.kind == 'punct' and tx.text in (')', ']', '}'):
                            d -= 1
                        elif tx.kind == 'ident' and tx.text == 'in' and d == 0:
                            in_k = q
                            break
                    if in_k is None:
                        raise LostAnchor('%s: loop %d: no `in`' % (fn_label, k))
                    edits.append((toks[in_k].end, toks[in_k].end, ' %s:' % ls.ghost, rw('A2:ghost')))
                    if ls.iterexpr:
                        # rule R9: the iterated expression is replaced by a shim call (e.g. `v` -> `vp_vec_into_iter(v)`)
                        edits.append((toks[in_k + 1].start, toks[lp.open_tok - 1].end, ls.iterexpr, rw('R9:iter')))
                        info.rewrites.append('R9:loop%d iter %s' % (k, ls.iterexpr))
                if inv_segs:
                    edits.append((open_t.start, open_t.start, ('SEGS', [Seg('\n', {'kind': 'glue'})] + inv_segs + [Seg('        ', {'kind': 'glue'})]), rw('A2')))

    # rule R3: a closure parameter pattern `_` becomes a fresh name (Verus: "only variables are supported here")
    annotated_params = set()
    if c and c.closures:
        _cls0 = find_closures(toks, blo, bhi)
        for k0, cs0 in c.closures.items():
            if cs0.params is not None and k0 < len(_cls0):
                annotated_params.add(_cls0[k0].bar_tok)
    _n_unused = 0
    for cl0 in find_closures(toks, blo, bhi):
        if toks[cl0.bar_tok].text == '||' or cl0.bar_tok in annotated_params:
            continue
        d0 = 0
        for w in range(cl0.bar_tok + 1, cl0.params_end_tok):
            tw = toks[w]
            if tw.kind == 'punct' and tw.text in ('(', '[', '<'):
                d0 += 1
            elif tw.kind == 'punct' and tw.text in (')', ']', '>'):
                d0 -= 1
            elif d0 == 0 and tw.text == '_' and toks[w - 1].text in ('|', ',') and toks[w + 1].text in (',', ':', '|'):
                _n_unused += 1
                edits.append((tw.start, tw.end, 'vp_unused%d' % _n_unused, rw('R3')))
                info.rewrites.append('R3:closure parameter `_`')

    # closures (A4)
    if c and c.closures:
        cls = find_closures(toks, blo, bhi)
        for k, cs in sorted(c.closures.items()):
          with _Txn():
            # a closure is addressed by ordinal; when the sidecar also names its parameters, the names must match -- if closures
            # were added or removed in front of it, the one closure with exactly these parameter names is taken instead
            def _names(cl0):
                out_, d_ = [], 0
                for w in range(cl0.bar_tok + 1, cl0.params_end_tok):
                    tw = toks[w]
                    if tw.kind == 'punct' and tw.text in ('(', '[', '<'):
                        d_ += 1
                    elif tw.kind == 'punct' and tw.text in (')', ']', '>'):
                        d_ -= 1
                    elif (tw.kind == 'ident' or tw.text == '_') and d_ == 0 and tw.text not in ('mut', 'ref') and toks[w - 1].text in ('|', ',', 'mut', '&') and toks[w + 1].text in (',', ':', '|'):
                        out_.append(tw.text)
                return out_
            want = None
            if cs.params is not None:
                want = [m_.group(1) for m_ in re.finditer(r'(?:^|,)\s*(?:mut\s+)?(\w+)\s*:', cs.params)]
            cl = cls[k] if k < len(cls) else None
            if want and (cl is None or (_names(cl) and _names(cl) != want)):
                match = [c0 for c0 in cls if _names(c0) == want]
                if len(match) == 1:
                    cl = match[0]
                    info.rewrites.append('A4:closure%d re-anchored by parameter names' % k)
                elif cl is None:
                    raise LostAnchor('%s: closure %d with parameters %s not found' % (fn_label, k, want))
            if cl is None:
                raise LostAnchor('%s: closure %d not found (function has %d closures)' % (fn_label, k, len(cls)))
            if cs.params is not None:
                if toks[cl.bar_tok].text == '||':
                    edits.append((toks[cl.bar_tok].start, toks[cl.bar_tok].end, '|%s|' % cs.params, rw('A4')))
                else:
                    edits.append((toks[cl.bar_tok].end, toks[cl.params_end_tok].start, cs.params, rw('A4')))
            # `$1`, `$2`, ... in a closure clause stand for the closure's own parameter names as written in the source (so that a
            # clause about "the context the closure is GIVEN" cannot be captured by an outer variable of the same name)
            pnames = _names(cl) if cs.params is None else [m_.group(1) for m_ in re.finditer(r'(?:^|,)\s*(?:mut\s+)?(\w+)\s*:', cs.params)]
            pnames = [('vp_unused?' if x == '_' else x) for x in pnames]
            blk_c = cs.block
            if any('$' in c0.expr for c0 in cs.block.clauses):
                import copy
                blk_c = ClauseBlock([copy.copy(c0) for c0 in cs.block.clauses])
                for c0 in blk_c.clauses:
                    def _sub(mo):
                        i_ = int(mo.group(1)) - 1
                        if i_ >= len(pnames) or pnames[i_].endswith('?'):
                            raise LostAnchor('%s: closure %d has no named parameter $%s' % (fn_label, k, mo.group(1)))
                        return pnames[i_]
                    c0.expr = re.sub(r'\$(\d)', _sub, c0.expr)
            spec_segs = [Seg(' -> %s\n' % cs.ret if cs.ret else '\n', rw('A4'))] + _render_block(blk_c, '                ', fn_label)
            info.clauses += [cl_ for cl_ in cs.block.clauses if cl_.group not in _xgroups()]
            ins_at = toks[cl.params_end_tok].end
            prf = (' proof { %s } ' % cs.proof) if cs.proof and (fn_label, '%s:%d' % (c.vc_file, cs.vc_line)) not in _drop_inserts() else ''
            if cl.is_block:
                edits.append((ins_at, ins_at, ('SEGS', spec_segs), rw('A4')))
                if prf:
                    b_open = toks[cl.body_start_tok].end
                    edits.append((b_open, b_open, prf, {'kind': 'insert', 'fn': fn_label, 'vc': '%s:%d' % (c.vc_file, cs.vc_line), 'tags': c.serves}))
            else:
                edits.append((ins_at, ins_at, ('SEGS', spec_segs + [Seg('                { ' + prf, rw('A4'))]), rw('A4')))
                e_end = toks[cl.body_end_tok].end
                edits.append((e_end, e_end, ' }', rw('A4')))
            if cs.bind:
                # rule R30: an inline closure argument is bound to a local first, so that the proof can name it:
                # `C`  ->  `{ let NAME = C; proof { .. } NAME }`  (creating a closure has no effect; evaluation order is unchanged)
                c_lo = toks[cl.bar_tok - 1].start if cl.has_move else toks[cl.bar_tok].start
                c_hi = toks[cl.body_end_tok].end
                edits.append((c_lo, c_lo, '{ let %s = ' % cs.bind, rw('R30')))
                org_a = {'kind': 'insert', 'fn': fn_label, 'vc': '%s:%d' % (c.vc_file, cs.vc_line), 'tags': c.serves, 'rule': 'R30'}
                n_as = len(re.findall(r'\bassert\s*\(', cs.after)) + len(re.findall(r'\bassert\s+forall\b', cs.after))
                if n_as:
                    info.n_asserts += n_as
                    info.proof_blocks.append(('%s:%d' % (c.vc_file, cs.vc_line), n_as))
                edits.append((c_hi, c_hi, '; proof { %s } %s }' % (cs.after, cs.bind), org_a))
                info.rewrites.append('R30:closure%d bound to %s' % (k, cs.bind))
            info.rewrites.append('A4:closure%d' % k)

    body_text_lo = body_open.end
    raw_body = sf.text[body_open.start:body_close.end]

    # rule R30 (hoist): arguments of one call -- inline closures, an iterator expression -- are bound to locals in front of the
    # statement, so that a proof can state a hypothesis about all of them at once.  Creating a closure / an iterator over the tree
    # has no effect, so evaluating them before the receiver of the call changes nothing.
    hoist_plan = []
    if c and c.hoists:
        cls_h = find_closures(toks, blo, bhi)
        for hn, h in enumerate(c.hoists):
          with _Txn():
            (dp, _dpe) = _find_nth(raw_body, h.anchor, None, fn_label)[0]
            dest = body_open.start + dp
            plan = {'id': hn, 'items': [], 'proof': h.proof, 'vc': '%s:%d' % (c.vc_file, h.vc_line)}
            for n_i, (kind_, what, name_) in enumerate(h.items):
                if kind_ == 'closure':
                    if what >= len(cls_h):
                        raise LostAnchor('%s: @hoist closure %d not found' % (fn_label, what))
                    cl_ = cls_h[what]
                    lo_ = toks[cl_.bar_tok - 1].start if cl_.has_move else toks[cl_.bar_tok].start
                    hi_ = toks[cl_.body_end_tok].end
                else:
                    (ep, epe) = _find_nth(raw_body, what, None, fn_label)[0]
                    lo_, hi_ = body_open.start + ep, body_open.start + epe
                if lo_ < dest:
                    raise LostAnchor('%s: @hoist item in front of its destination' % fn_label)
                tag = (hn, n_i)
                edits.append((lo_, lo_, ('SEGS', [Seg('', {'kind': 'hoist-open', 'tag': tag})]), rw('R30')))
                edits.append((hi_, hi_, ('SEGS', [Seg('', {'kind': 'hoist-close', 'tag': tag})]), rw('R30')))
                plan['items'].append((tag, name_))
            edits.append((dest, dest, ('SEGS', [Seg('', {'kind': 'hoist-dest', 'tag': hn})]), rw('R30')))
            n_as = len(re.findall(r'\bassert\s*\(', h.proof)) + len(re.findall(r'\bassert\s+forall\b', h.proof))
            if n_as:
                info.n_asserts += n_as
                info.proof_blocks.append((plan['vc'], n_as))
            hoist_plan.append(plan)
            info.rewrites.append('R30:hoist %s' % ', '.join(nm for (_, nm) in plan['items']))

    # inserts (A3) and replaces
    if c:
        for ins in c.inserts:
          with _Txn():
            org = {'kind': 'insert', 'fn': fn_label, 'vc': '%s:%d' % (ins.vc_file, ins.vc_line), 'tags': c.serves}
            if ins.group and ins.group in _xgroups():
                continue
            if (fn_label, org['vc']) in _drop_inserts():
                raise LostAnchor('%s: proof block %s left out (does not compile against the changed function)' % (fn_label, org['vc']))
            n_as = len(re.findall(r'\bassert\s*\(', ins.text)) + len(re.findall(r'\bassert\s+forall\b', ins.text))
            info.n_asserts += n_as
            if n_as:
                info.proof_blocks.append(('%s:%d' % (ins.vc_file, ins.vc_line), n_as))
            txt = '\n' + ins.text
            if ins.where == 'body-start':
                body_start_ins.append(Seg(txt, org))
            elif ins.where == 'body-end':
                edits.append((body_close.start, body_close.start, txt, org))
            elif ins.where in ('loop-start', 'loop-end'):
                k = ins.arg
                if k >= len(loops):
                    raise LostAnchor('%s: loop %d not found' % (fn_label, k))
                lp = loops[k]
                if ins.where == 'loop-start':
                    p = toks[lp.open_tok].end
                    # must come after a desugared loop header: use a later sort key via tiny offset trick
                    edits.append((p, p, txt, org))
                else:
                    p = toks[lp.close_tok].start
                    edits.append((p, p, txt, org))
            else:
                needle, nth = ins.arg
                for (p, pe) in _find_nth(raw_body, needle, nth, fn_label):
                    a = body_open.start + (pe if ins.where == 'after' else p)
                    edits.append((a, a, resolve_names(txt, a), org))
        for rp in c.replaces:
          with _Txn():
            whole = sf.text[it.start:it.end]
            for (p, pe) in _find_nth(whole, rp.old, rp.nth, fn_label):
                a = it.start + p
                org_r = rw(rp.rule)
                n_as = len(re.findall(r'\bassert\s*\(', rp.new))
                if n_as:
                    # a rewrite that carries a proof assertion is an obligation like an @insert block
                    org_r = {'kind': 'insert', 'fn': fn_label, 'vc': '%s:%d' % (c.vc_file, rp.vc_line), 'tags': c.serves, 'rule': rp.rule}
                    info.n_asserts += n_as
                    info.proof_blocks.append(('%s:%d' % (c.vc_file, rp.vc_line), n_as))
                edits.append((a, it.start + pe, resolve_names(rp.new, a), org_r))
                info.rewrites.append('%s:%r' % (rp.rule, rp.old[:30]))

    if body_start_ins:
        edits.append((body_open.end, body_open.end, ('SEGS', body_start_ins), {'kind': 'glue'}))
    if sig_segs:
        edits.append((body_open.start, body_open.start, ('SEGS', sig_segs), {'kind': 'glue'}))

    # automatic rewrites (R5 macros, R14 std paths) yield to explicit @replace ranges that cover them
    manual = [(s_, e_) for (s_, e_, r_, o_) in edits if isinstance(o_, dict) and o_.get('kind') in ('rewrite', 'insert')
              and not str(o_.get('rule', '')).startswith(('R5:', 'R14:', 'A', 'R1', 'R8', 'R21')) and e_ > s_]
    def _covered(s_, e_):
        return any(ms <= s_ and e_ <= me for (ms, me) in manual)
    edits = [(s_, e_, r_, o_) for (s_, e_, r_, o_) in edits
             if not (isinstance(o_, dict) and (str(o_.get('rule', '')).startswith(('R5:', 'R14:')) or o_.get('rule') == 'R21') and _covered(s_, e_))]
    # apply: stable sort by (start, order of insertion)
    norm = []
    for idx, (s, e, r, o) in enumerate(edits):
        norm.append((s, e, idx, r, o))
    norm.sort(key=lambda x: (x[0], x[1] - x[0] != 0, x[2]))
    # An edit that *replaces* a range starting at s must come after pure insertions at s.
    out: List[Seg] = list(head)
    pos = it.start
    for (s, e, _, r, o) in norm:
        if s < pos:
            raise LostAnchor('%s: overlapping rewrites near line %d' % (fn_label, sf.line_of(s)))
        if s > pos:
            out.append(Seg(sf.text[pos:s], repo_origin(pos)))
        if isinstance(r, tuple) and r[0] == 'SEGS':
            out += r[1]
        elif r:
            out.append(Seg(r, o))
        pos = e
    if pos < it.end:
        out.append(Seg(sf.text[pos:it.end], repo_origin(pos)))
    out.append(Seg('\n', {'kind': 'glue'}))
    for plan in hoist_plan:
        lets: List[Seg] = []
        for (tag, name_) in plan['items']:
            i0 = next(i for i, sg in enumerate(out) if isinstance(sg.origin, dict) and sg.origin.get('kind') == 'hoist-open' and sg.origin.get('tag') == tag)
            i1 = next(i for i, sg in enumerate(out) if isinstance(sg.origin, dict) and sg.origin.get('kind') == 'hoist-close' and sg.origin.get('tag') == tag)
            moved = out[i0 + 1:i1]
            out[i0:i1 + 1] = [Seg(name_, rw('R30'))]
            lets += [Seg('let %s = ' % name_, rw('R30'))] + moved + [Seg(';\n', rw('R30'))]
        if plan['proof']:
            lets.append(Seg('proof { %s }\n' % plan['proof'], {'kind': 'insert', 'fn': fn_label, 'vc': plan['vc'], 'tags': c.serves, 'rule': 'R30'}))
        d0 = next(i for i, sg in enumerate(out) if isinstance(sg.origin, dict) and sg.origin.get('kind') == 'hoist-dest' and sg.origin.get('tag') == plan['id'])
        out[d0:d0 + 1] = lets
    return out, info


_DIRECTIVE = re.compile(r'^\s*//@(\w+)\s*(.*)$')


def find_helper(file: str, name: str, type_name: Optional[str]):
    """Locate `fn name` (free, or a method of `type_name`) in `file`, else in any source file of the same crate (rule R27).
    Returns (file, item path) or None."""
    import glob
    crate_src = file[:file.index('/src/') + 5] if '/src/' in file else os.path.dirname(file)
    cands = [file] + sorted(os.path.relpath(p, REPO) for p in glob.glob(os.path.join(REPO, crate_src, '**', '*.rs'), recursive=True)
                            if os.path.relpath(p, REPO) != file)
    for f in cands:
        try:
            sf = source(f)
        except LostAnchor:
            continue
        for path in ([('%s::%s' % (type_name, name))] if type_name else []) + [name]:
            try:
                it = sf.find(path)
                if it.kind == 'fn' and it.body_open_tok >= 0:
                    return f, path
            except KeyError:
                pass
    return None


# a helper pulled in without a contract (R27) has no `decreases` either: termination of recursion through it is not claimed
_R27_ATTR = Seg('#[verifier::exec_allows_no_decreases_clause]\n', {'kind': 'rewrite', 'rule': 'R27:no-decreases'})


def assemble(unit_path: str, contracts=None, canary: bool = False, extras: Optional[List[Tuple[str, str, str]]] = None) -> Assembled:
    """extras: (after function label, file, item path) -- helper functions pulled in automatically, without a contract (R27)"""
    if contracts is None:
        contracts = load_all(VERIF)
    extras = list(extras or [])
    pending_free: List[Tuple[str, str]] = []
    unit = os.path.splitext(os.path.basename(unit_path))[0]
    segs: List[Seg] = []
    fns: List[FnInfo] = []
    includes: List[str] = []
    mod_stack: List[str] = []

    missing_stubs: List[str] = []
    bodies = set()
    xg = set()
    for line in open(unit_path):
        mb = re.match(r'^\s*//@bodies\s+(.*)$', line)
        if mb:
            bodies.update(mb.group(1).split())
        mg = re.match(r'^\s*//@exclude-groups\s+(.*)$', line)
        if mg:
            xg.update(mg.group(1).split())
    set_exclude_groups(xg)
    used_bodies = set()

    def process(path: str, text: str, depth: int = 0):
        for ln, line in enumerate(text.split('\n'), 1):
            m = _DIRECTIVE.match(line)
            if not m:
                segs.append(Seg(line + '\n', {'kind': 'unit', 'file': path, 'line': ln}))
                if line.rstrip() == '}' and pending_free:
                    # end of an `impl` block of the template: free helper functions needed by its methods follow it
                    for (xf, xi) in pending_free:
                        if '::' in xi:
                            continue
                        xs, xinfo = extract_fn(unit, xf, xi, 'body', contracts, False, {})
                        xs = [_R27_ATTR] + xs
                        xinfo.auto_added = True
                        xinfo.verus_name = '::'.join(mod_stack + [xi])
                        start = sum(len(s.text.encode()) for s in segs)
                        segs.extend(xs)
                        xinfo.gen_start = start
                        xinfo.gen_end = sum(len(s.text.encode()) for s in segs)
                        fns.append(xinfo)
                    del pending_free[:]
                # track module nesting for Verus function names (best effort, `mod x {` on its own line)
                mm = re.match(r'^\s*(pub(\([a-z]+\))?\s+)?mod\s+(\w+)\s*\{\s*$', line)
                if mm:
                    mod_stack.append(mm.group(3))
                elif re.match(r'^\s*\}\s*//\s*mod\s+(\w+)\s*$', line):
                    if mod_stack:
                        mod_stack.pop()
                continue
            d, rest = m.group(1), m.group(2).strip()
            if d in ('include', 'include_stub'):
                p = os.path.join(VERIF, rest)
                includes.append(rest)
                txt = open(p).read()
                if d == 'include_stub':
                    # the same fragment with every verified body replaced by its contract-only stub
                    txt = txt.replace('//@body ', '//@stub ')
                process(rest, txt, depth + 1)
            elif d == 'bodies':
                pass
            elif d in ('body', 'stub', 'item', 'decl', 'auto'):
                if d == 'auto':
                    # body if the unit selects this function (by its last path segment or full item path), else stub
                    itm = rest.split('::', 1)[1].strip()
                    key1 = itm.split('::')[-1].strip()
                    if itm in bodies or key1 in bodies:
                        d = 'body'
                        used_bodies.add(itm if itm in bodies else key1)
                    else:
                        d = 'stub'
                opts = {}
                mm = re.match(r'^(.*?)\s*::\s*(.*?)(\s+\w+=.*)?$', rest)
                file, item = mm.group(1).strip(), mm.group(2).strip()
                if mm.group(3):
                    for kv in re.finditer(r'(\w+)="([^"]*)"', mm.group(3)):
                        opts[kv.group(1)] = kv.group(2)
                try:
                    fsegs, info = extract_fn(unit, file, item, d if d != 'item' else 'item', contracts,
                                             canary and d == 'body', opts)
                except LostAnchor as e:
                    # a function that is only needed as a contract-only stub and no longer exists is simply left out: if the code
                    # under verification still calls it, that is a front-end error (undecided); if not, nothing is lost
                    if d == 'stub' and 'not found' in str(e):
                        missing_stubs.append('%s::%s' % (file, item))
                        continue
                    raise
                def emit(fsegs_, info_, item_):
                    info_.verus_name = '::'.join(mod_stack + [item_.split('::')[-1]])
                    start = sum(len(s.text.encode()) for s in segs)
                    segs.extend(fsegs_)
                    info_.gen_start = start
                    info_.gen_end = sum(len(s.text.encode()) for s in segs)
                    fns.append(info_)
                emit(fsegs, info, item)
                for (after, xf, xi) in extras:
                    if after != '%s::%s' % (file, item):
                        continue
                    if ('::' in xi) == ('::' in item):
                        xs, xinfo = extract_fn(unit, xf, xi, 'body', contracts, False, {})
                        xs = [_R27_ATTR] + xs
                        xinfo.auto_added = True
                        emit(xs, xinfo, xi)
                    else:
                        pending_free.append((xf, xi))
            elif d in ('unit', 'note', 'serves', 'bodies', 'rlimit', 'exclude'):
                pass
            else:
                raise ContractError('%s:%d: unknown directive //@%s' % (path, ln, d))

    process(os.path.relpath(unit_path, VERIF), open(unit_path).read())
    if bodies - used_bodies:
        raise ContractError('%s: //@bodies names not found in any //@auto directive: %s' % (unit_path, sorted(bodies - used_bodies)))
    text = ''.join(s.text for s in segs)
    table = []
    off = 0
    for s in segs:
        n = len(s.text.encode())
        if n:
            table.append((off, off + n, s.origin))
        off += n
    trusted = ['stub left out (function no longer exists): ' + m for m in missing_stubs]
    return Assembled(unit, text, table, fns, includes, trusted)


if __name__ == '__main__':
    import sys
    a = assemble(sys.argv[1], canary='--canary' in sys.argv)
    sys.stdout.write(a.text)
