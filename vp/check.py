#!/usr/bin/env python3
"""bin/check <PROPERTY> [--tier quick|thorough] [--replay FILE]

Decides one property by contract-based deductive verification of the functions extracted from /repo's
current working tree (see DESIGN.md).  Exit 0: every obligation tagged with the property is discharged
(known findings printed).  Exit 1 + VIOLATION line: an obligation that is in the baseline failed twice.
Exit 2: undecided (lost anchor, front-end error, resource limit, vacuous contract) -- never an alarm.
"""
from __future__ import annotations
import json, os, re, sys, time, subprocess, glob, hashlib

HERE = os.path.dirname(os.path.abspath(__file__))
sys.path.insert(0, HERE)
import assemble as asm
import run as runner
import replay as replaymod
import kanirun

VERIF = asm.VERIF
EVID = os.environ.get('VERIF_EVIDENCE_DIR') or os.path.join(VERIF, 'evidence')
REPLAYS = os.path.join(VERIF, 'build', 'replays')


def load_json(p, default):
    try:
        return json.load(open(p))
    except FileNotFoundError:
        return default


def scan_assumptions(a: asm.Assembled):
    """Mechanical scan of the assembled text for everything that is assumed rather than proved."""
    txt = a.text
    out = []
    for m in re.finditer(r'assume_specification\s*(<[^\[]*>)?\s*\[\s*([^\]]+?)\s*\]', txt):
        out.append('assume_specification: ' + re.sub(r'\s+', ' ', m.group(2)))
    lines = txt.split('\n')
    for i, l in enumerate(lines):
        if 'external_body' in l and 'verifier' in l:
            # next non-attribute line names the item
            j = i + 1
            while j < len(lines) and (lines[j].strip().startswith('#[') or not lines[j].strip()):
                j += 1
            if j < len(lines):
                nm = re.sub(r'\s+', ' ', lines[j].strip())[:110]
                out.append('external_body: ' + nm)
        if re.search(r'\b(assume|admit)\s*\(', l) and 'assume_specification' not in l:
            out.append('assume/admit: ' + l.strip()[:110])
        if 'uninterp spec fn' in l:
            out.append('uninterpreted: ' + l.strip()[:110])
    seen, res = set(), []
    for o in out:
        if o not in seen:
            seen.add(o)
            res.append(o)
    return res


def _workarounds_touching(fl, recoveries, fn_texts):
    """The front-end workarounds (R25-R27, lost anchors) of the unit that concern the function whose proof failed: the function itself,
    or a function it mentions by name (a callee whose contract clause was left out)."""
    txt = fn_texts.get((fl.unit, fl.fn), '')
    out = []
    for w in recoveries:
        if not w.startswith('[%s] ' % fl.unit):
            continue
        m = re.match(r'\[[^\]]+\] (R25|R26|R27|LOST) (.+?): ', w)
        if not m:
            out.append(w)
            continue
        item = m.group(2).strip()
        short = item.split('::')[-1]
        if fl.fn.endswith('::' + item) or fl.fn.endswith(item) or re.search(r'\b%s\b' % re.escape(short), txt):
            out.append(w)
    return out


def main(argv):
    if len(argv) < 2:
        print(__doc__)
        return 2
    pid = argv[1]
    tier = os.environ.get('VERIF_TIER', 'quick')
    replay_file = None
    i = 2
    while i < len(argv):
        if argv[i] == '--tier':
            tier = argv[i + 1]
            i += 2
        elif argv[i] == '--replay':
            replay_file = argv[i + 1]
            i += 2
        else:
            i += 1
    seed = int(os.environ.get('VERIF_SEED', '0') or 0)
    if replay_file:
        return replaymod.replay_main(pid, replay_file)

    t0 = time.time()
    os.makedirs(EVID, exist_ok=True)
    os.makedirs(REPLAYS, exist_ok=True)
    units = [u for u in runner.all_units() if pid in runner.unit_serves(u)]
    if not units:
        print('no unit serves %s' % pid)
        return 2
    rlimit = 10 if tier == 'quick' else 40
    results = runner.run_units(units, rlimit=rlimit, seed=seed, canary=True, jobs=8)

    known = load_json(os.path.join(VERIF, 'known_findings.json'), {'findings': []})['findings']
    known_by_ob = {k['obligation']: k for k in known if k.get('status') == 'known' and k.get('property') == pid}
    baseline = load_json(os.path.join(VERIF, 'baseline', 'obligations.json'), {})

    obligations = []
    fns_contract = []
    fns_assumed = []
    trusted = []
    undecided = []
    failures = []
    other_failures = []
    cmds = []
    solver_ms = {}
    vac = {'canary_functions': 0, 'canary_failed_as_required': 0, 'vacuous': []}
    versions = set()
    rewrites = []
    recoveries = []
    fn_texts = {}
    for unit, d in sorted(results.items()):
        r: runner.UnitResult = d['main']
        recoveries += ['[%s] %s' % (unit, x) for x in r.recoveries]
        cmds.append('(cd %s && %s)' % (os.path.relpath(os.path.dirname(r.path), VERIF), r.cmd))
        if r.verus_version:
            versions.add(r.verus_version)
        if r.status == 'lost-anchor':
            undecided.append('%s: lost anchor: %s' % (unit, r.detail))
            continue
        a = r.assembled
        base_sha = runner.baseline_fn_sha()
        gen_bytes = a.text.encode('utf-8')
        for f in a.fns:
            fn_texts[(unit, '%s::%s' % (f.file, f.item))] = gen_bytes[f.gen_start:f.gen_end].decode('utf-8', 'replace')
        for f in a.fns:
            lab = '%s::%s' % (f.file, f.item)
            if f.lost and base_sha.get(lab) == f.sha256:
                undecided.append('%s: annotation lost on an UNCHANGED function %s (framework defect): %s' % (unit, f.item, '; '.join(f.lost)[:300]))
            elif f.lost:
                recoveries.append('[%s] LOST %s: annotation without an anchor in the changed text left out: %s' % (unit, f.item, '; '.join(f.lost)[:300]))
        obs = [o for o in runner.static_obligations(a) if pid in o['tags']]
        if r.status in ('frontend', 'internal', 'rlimit'):
            undecided.append('%s: %s: %s' % (unit, r.status, r.detail[:600]))
        for f in a.fns:
            ent = {'unit': unit, 'function': '%s::%s' % (f.file, f.item), 'lines': [f.line_start, f.line_end],
                   'sha256': f.sha256, 'mode': f.mode, 'bindings': f.locals}
            if f.renamed:
                recoveries.append('[%s] R28 %s: contract text follows renamed bindings (%s)' % (unit, f.item, ', '.join('%s->%s' % kv for kv in sorted(f.renamed.items()))))
            if f.mode == 'body':
                ent['rewrites'] = sorted(set(f.rewrites))
                ent['smt_ms'] = round(sum(v for k, v in r.fn_ms.items() if k.split('::')[-1] == f.item.split('::')[-1]), 1)
                fns_contract.append(ent)
                for rw in f.rewrites:
                    rewrites.append('%s: %s' % (f.item, rw))
            elif f.mode == 'stub':
                fns_assumed.append(ent)
        trusted += ['[%s] %s' % (unit, t) for t in scan_assumptions(a)] + ['[%s] %s' % (unit, t) for t in a.trusted]
        trusted += ['assumed clause (never proved at the definition): %s#ensures.%s' % (f.item, l.split('.')[-1]) for f in a.fns for l in f.assumed_clauses]
        failed_ids = set()
        for fl in r.failures:
            if pid in fl.tags:
                failures.append(fl)
                failed_ids.add(fl.obligation)
            else:
                other_failures.append(fl)
        for fl in r.failures:
            if pid in fl.tags and fl.obligation in known_by_ob and '#pre(' in fl.obligation:
                obligations.append({'id': fl.obligation, 'fn': fl.fn, 'tags': fl.tags, 'unit': unit, 'kind': 'pre',
                                    'text': 'call-site precondition: %s' % (fl.clause or ''), 'status': 'failed'})
        failed_fns = {fl.fn for fl in r.failures}
        for o in obs:
            o = dict(o)
            o['unit'] = unit
            if r.status in ('frontend', 'internal', 'rlimit'):
                o['status'] = 'undecided'
            elif o['id'] in failed_ids:
                o['status'] = 'failed'
            elif o['kind'] == 'safety' and any(fl.fn == o['fn'] and fl.obligation.split('#')[1].startswith(('safety', 'pre(')) and pid in fl.tags
                                                and fl.obligation not in known_by_ob for fl in r.failures):
                o['status'] = 'failed'
            else:
                o['status'] = 'discharged'
            obligations.append(o)
        # vacuity: every body function's canary must fail
        c = d.get('canary')
        if c is not None and c.assembled is not None and r.status not in ('frontend', 'internal') and c.status not in ('frontend', 'internal', 'lost-anchor'):
            canary_failed_fns = set()
            for dg in c.raw_diags:
                if dg.get('level') != 'error':
                    continue
                for s in dg.get('spans', []):
                    if s.get('file_name', '').endswith(os.path.basename(c.path)):
                        fi = c.assembled.fn_at(s['byte_start'])
                        o = c.assembled.origin_at(s['byte_start'])
                        if fi is not None and o.get('kind') == 'canary':
                            canary_failed_fns.add(fi.item)
            for f in c.assembled.fns:
                if f.mode != 'body' or f.auto_added:
                    continue
                vac['canary_functions'] += 1
                if f.item in canary_failed_fns:
                    vac['canary_failed_as_required'] += 1
                else:
                    vac['vacuous'].append('%s:%s' % (unit, f.item))
        elif c is not None and c.status == 'lost-anchor':
            pass

    # baseline guard: the number of obligations may not silently shrink
    base_n = baseline.get(pid, {}).get('obligations')
    n_ob = len(obligations)
    if vac['vacuous']:
        undecided.append('vacuity guard: assert(false) verified in %s (contradictory preconditions?)' % ', '.join(vac['vacuous']))
    if n_ob == 0:
        undecided.append('no obligations generated for %s' % pid)
    if base_n is not None and n_ob < base_n and not undecided:
        undecided.append('obligation count %d is below the committed baseline %d' % (n_ob, base_n))

    # bounded Kani stand-ins / complete finite-domain harnesses attached to this property
    bounded = kanirun.run_for_property(pid, tier)
    for b in bounded:
        if b['status'] == 'failed':
            failures.append(runner.Failure('kani', b['target'], 'kani:%s' % b['harness'], [pid],
                                           'kani harness failed', None, b.get('property'), b.get('output', '')[-3000:]))
        elif b['status'] not in ('ok', 'skipped'):
            undecided.append('kani %s: %s' % (b['harness'], b['status']))

    # thorough tier: validate the parser-fact assumptions on real trees, and sweep the property's oracle over the corpus on the real
    # code (sampled, never counted as proved; a failing input that did not fail on the unchanged tree is a violation with a replay)
    assumption_validation = None
    sweep_hits = []
    # quick tier: the same sweep stands in (sampled, labelled so) when the changed code left the verifier's language subset and no
    # obligation could be generated for it -- the check then still exits 1 if a concrete failing input exists, and 2 otherwise
    out_of_reach = [u for u in undecided if re.search(r': (frontend|internal|lost anchor)', u)]
    # ... and when a function that is only *assumed* here (contract-only stub: outside the verifier's reach, DESIGN 3) has changed: its
    # contract is not re-proved by anything, so the sampled sweep is the only thing that looks at the new code at all
    base_sha_all = runner.baseline_fn_sha()
    body_fns = {e['function'] for e in fns_contract}
    changed_assumed = sorted({e['function'] for e in fns_assumed
                              if e['function'] not in body_fns and base_sha_all.get(e['function']) not in (None, e['sha256'])})
    do_sweep = (tier == 'thorough' or bool(out_of_reach) or bool(changed_assumed)) and not os.environ.get('VERIF_NO_REPLAY')
    if do_sweep and replaymod.build():
        files = replaymod.corpus()
        try:
            if tier != 'thorough':
                raise StopIteration
            pf = subprocess.run([replaymod.BIN, 'FACTS'] + files, capture_output=True, text=True, timeout=1200)
            assumption_validation = {'what': 'parser facts PF0-PF22 and the grammar table on every node of %d corpus files (inputs and formatted outputs)' % len(files),
                                     'cmd': 'build/replay-target/debug/vp-replay FACTS <corpus>', 'summary': pf.stderr.strip()[-300:], 'violations': [l for l in pf.stdout.split('\n') if l.strip()][:20]}
            if pf.returncode != 0:
                undecided.append('parser facts assumed by the contracts do not hold on the corpus: ' + '; '.join(assumption_validation['violations'][:3]))
        except StopIteration:
            pass
        except Exception as e:  # noqa
            assumption_validation = {'error': str(e)}
        if pid in replaymod.LIB_PROPS:
            t1 = time.time()
            known_inputs = replaymod.baseline_failures(pid)
            use = [f for f in files if os.path.relpath(f, asm.REPO if f.startswith(asm.REPO) else VERIF) not in known_inputs]
            sweep_hits = replaymod.run_oracle(pid, use, extra=['--max', '200'])
            bounded.append({'harness': 'oracle sweep' + ((' (stand-in: changed code outside the verifier\'s reach%s)' % (': ' + ', '.join(x.split('::', 1)[-1] for x in changed_assumed[:4]) if changed_assumed else '')) if tier != 'thorough' else ''), 'kind': 'sampled', 'target': 'statement of %s checked by parsing input and output with typst-syntax' % pid,
                            'bound': '%d corpus inputs x widths 0/20/40/80/120 x tabs 2/4 (%d inputs skipped: they fail on the unchanged tree, see replay/baseline_failures.json)' % (len(use), len(files) - len(use)),
                            'status': 'failed' if sweep_hits else 'ok', 'seconds': round(time.time() - t1, 1)})
        elif pid in ('C14', 'C15', 'C16'):
            import cli_replay
            rec0 = {}
            t1 = time.time()
            hit = cli_replay.find_failing_scenario(pid, rec0)
            bounded.append({'harness': 'CLI scenarios', 'kind': 'sampled', 'target': 'the real typstyle binary in a scratch directory', 'bound': '%d scenarios' % len(cli_replay.scenarios(pid)),
                            'status': 'failed' if hit else 'ok', 'seconds': round(time.time() - t1, 1), 'note': rec0.get('replay_note', '')})
            if hit:
                sweep_hits = [{'file': '(CLI scenario) ' + rec0['input']['scenario'], 'width': 0, 'tab': 0, 'why': rec0['input']['oracle_says'], 'scenario': rec0['input']}]
    for h in sweep_hits[:3]:
        failures.append(runner.Failure('sweep', h['file'], 'sweep:%s' % re.sub(r'[^A-Za-z0-9_.()-]+', '_', os.path.basename(h['file'])), [pid], 'oracle of %s fails on the real code: %s' % (pid, h['why']), None, None, json.dumps(h)))

    # classify failures
    violations = []
    known_printed = []
    for fl in failures:
        kf = known_by_ob.get(fl.obligation)
        if kf is not None:
            if kf['id'] not in [k['id'] for k in known_printed]:
                known_printed.append(kf)
            continue
        violations.append(fl)
    # a failing obligation must be one that the baseline discharged, else it is undecided (exit 2)
    base_ids = set(baseline.get(pid, {}).get('ids', []))
    real_violations = []
    for fl in violations:
        base_key = re.sub(r'#pre\(.*$', '#safety', fl.obligation)
        if not base_ids or fl.obligation in base_ids or base_key in base_ids or fl.obligation.startswith(('kani:', 'sweep:')):
            real_violations.append(fl)
        else:
            undecided.append('failing obligation %s is not in the baseline' % fl.obligation)

    # every listed (unrepaired) finding of this property is printed; the ones tied to an obligation also suppress exactly it
    for kf in known:
        if kf.get('status') == 'known' and kf.get('property') == pid and kf['id'] not in [k['id'] for k in known_printed]:
            known_printed.append(kf)
    for kf in known_printed:
        print('KNOWN-FINDING: property=%s %s' % (pid, kf['text']))

    # replay: look for a concrete failing input for each violated obligation
    replay_paths = []
    vio_lines = []
    seen_ob = set()
    for fl in real_violations:
        if fl.obligation in seen_ob:
            continue
        seen_ob.add(fl.obligation)
        path = os.path.join(REPLAYS, '%s-%s.json' % (pid, re.sub(r'[^A-Za-z0-9_.-]+', '_', fl.obligation)[:120]))
        rec = {'property': pid, 'obligation': fl.obligation, 'function': fl.fn, 'repo_location': fl.repo_loc,
               'clause': fl.clause, 'message': fl.message, 'verifier_output': fl.rendered, 'input': None,
               'front_end_workarounds': _workarounds_touching(fl, recoveries, fn_texts)}
        if fl.obligation.startswith('sweep:'):
            h = json.loads(fl.rendered)
            rec['input'] = h.get('scenario') or {'file': h['file'], 'width': h['width'], 'tab': h['tab'], 'reorder': h.get('reorder', False), 'oracle_says': h['why']}
            found = True
        else:
            found = replaymod.find_failing_input(pid, fl, rec)
        if not found and rec['front_end_workarounds']:
            # Part of the contract text could not be applied to the changed code (clauses or proof hints that no longer compile or lost
            # their anchor, a new helper that has no contract yet).  A proof that fails in that situation may fail for lack of the hint
            # or of the helper's contract, not because the code is wrong: without a failing input it stays undecided.
            rec['verdict'] = 'undecided'
            with open(path, 'w') as f:
                json.dump(rec, f, indent=1)
            undecided.append('obligation %s fails, but the contracts of unit %s only partly apply to the changed code (%s) and no failing input '
                             'was found: adapt the contract text, see %s' % (fl.obligation, fl.unit, '; '.join(w.split('] ', 1)[-1][:90] for w in rec['front_end_workarounds'][:3]), path))
            continue
        with open(path, 'w') as f:
            json.dump(rec, f, indent=1)
        replay_paths.append(path)
        tail = '' if found else ' no-failing-input-found'
        nm = re.search(r' \[([A-Za-z0-9_.\-]+)\]$', fl.message or '')
        vio_lines.append('VIOLATION property=%s replay=%s obligation=%s%s%s' % (pid, path, fl.obligation, ('[%s]' % nm.group(1)) if nm else '', tail))

    n_dis = sum(1 for o in obligations if o['status'] == 'discharged')
    n_known = sum(1 for o in obligations if o['status'] == 'failed' and o['id'] in known_by_ob)
    wall = time.time() - t0
    samples = [{'id': o['id'], 'obligation': o['text'][:400], 'status': o['status']} for o in obligations[:12]]
    if os.path.exists(os.path.join(VERIF, 'MANIFEST.json')):
        man = json.load(open(os.path.join(VERIF, 'MANIFEST.json')))
        note = next((c.get('level_note', '') for c in man.get('checks', []) if c['property_id'] == pid), '')
    else:
        note = ''
    trusted = sorted(set(trusted))
    ev = {
        'property_id': pid, 'tier': tier, 'seed': seed, 'level': 'proof',
        'coverage': {
            'obligations': n_ob - n_known,
            'discharged': n_dis,
            'checker_cmd': ' ; '.join(cmds),
            'trusted_base': trusted + ['rewrite ' + r for r in sorted(set(rewrites))],
            'samples': samples,
            'explanation': 'Each obligation is one contract clause (ensures / invariant / decreases / inserted assert) or the '
                           'per-function safety bundle, generated from the text of the function in /repo and discharged by Verus '
                           '(Z3).  Known-finding obligations are listed separately and not counted.',
            'all_obligations': [{'id': o['id'], 'status': o['status'], 'text': o['text'][:300]} for o in obligations],
            'functions_under_contract': fns_contract,
            'functions_assumed': fns_assumed,
            'backend': {'verus': sorted(versions), 'solver': 'z3 (bundled with verus)', 'kani': kanirun.version()},
            'rlimit': rlimit,
            'bounded_checks': [{k: v for k, v in b.items() if k != 'output'} for b in bounded],
            'vacuity': vac,
            'known_findings_printed': [k['id'] for k in known_printed],
            'undecided': undecided,
            'front_end_workarounds': recoveries,
            'changed_functions_outside_contract': changed_assumed,
            'assumption_validation': assumption_validation,
            'failures_tagged_for_other_properties': sorted({f.obligation for f in other_failures}),
            'solver_time_ms': round(sum(r['main'].smt_ms for r in results.values()), 1),
        },
        'assumptions': [note] if note else [],
        'wall_s': round(wall, 2),
        'violations': len(vio_lines),
    }
    with open(os.path.join(EVID, '%s.json' % pid), 'w') as f:
        json.dump(ev, f, indent=1)

    for l in vio_lines:
        print(l)
    print('%s: %d obligations, %d discharged, %d known-finding, %d violations, %d undecided notes, %d functions under contract, %.1fs'
          % (pid, n_ob, n_dis, n_known, len(vio_lines), len(undecided), len(fns_contract), wall))
    for u in undecided:
        print('UNDECIDED: ' + u)
    if vio_lines:
        return 1
    if undecided:
        return 2
    if n_dis + n_known != n_ob:
        print('UNDECIDED: %d obligations neither discharged nor known' % (n_ob - n_dis - n_known))
        return 2
    return 0


if __name__ == '__main__':
    sys.exit(main(sys.argv))
