"""CLI scenarios for C14 / C15 / C16: the real `typstyle` binary (built from /repo's working tree) in a scratch directory.
Used only for replay (to attach a concrete failing scenario to a failed obligation) -- never to decide a property."""
from __future__ import annotations
import json, os, shutil, subprocess, tempfile, time

VERIF = os.path.dirname(os.path.dirname(os.path.abspath(__file__)))
REPO = os.environ.get('VP_REPO', '/repo')
TARGET = os.path.join(VERIF, 'build', 'cli-target-scratch' if os.path.realpath(REPO) != '/repo' else 'cli-target')
CLI = os.path.join(TARGET, 'debug', 'typstyle')
_built = {}

UNFORMATTED = '#let   x  =  (1 ,2)\n\nSome   text  here.\n'
FORMATTED_REF = None
ERRONEOUS = '#let x = (1, 2\n'
CRLF = '#let x = (1, 2)\r\n\r\nSome text.\r\n'
WIDE = '#let accumulate(a, b, c) = (first-long-name: a + b, second-long-name: b + c, third-long-name: c + a)\n#(a, b)\n#import "a.typ": z, y, x\n'


def build() -> bool:
    if 'ok' in _built:
        return _built['ok']
    import replay
    env = dict(os.environ, CARGO_NET_OFFLINE='true')
    try:
        p = subprocess.run(['cargo', 'build', '--offline', '-p', 'typstyle', '--target-dir', TARGET], cwd=REPO, env=env,
                           capture_output=True, text=True, timeout=1800)
        _built['ok'] = p.returncode == 0 and os.path.exists(CLI) and replay.build()
        _built['log'] = p.stderr[-1500:]
    except Exception as e:  # noqa
        _built['ok'] = False
        _built['log'] = str(e)
    return _built['ok']


def lib(text: str, width=80, tab=2, reorder=False):
    """the library's answer (None: refused)"""
    import replay
    with tempfile.NamedTemporaryFile('w', suffix='.typ', delete=False, newline='') as f:
        f.write(text)
    try:
        p = subprocess.run([replay.BIN, 'FORMAT', str(width), str(tab), '1' if reorder else '0', f.name], capture_output=True)
        return p.stdout.decode('utf-8') if p.returncode == 0 else None
    finally:
        os.unlink(f.name)


def run(args, cwd, stdin=None):
    p = subprocess.run([CLI] + args, cwd=cwd, input=stdin, capture_output=True, timeout=120)
    return p.returncode, p.stdout.decode('utf-8', 'replace'), p.stderr.decode('utf-8', 'replace')


def snapshot(root):
    out = {}
    for d, _, fs in os.walk(root):
        for f in fs:
            p = os.path.join(d, f)
            if os.path.islink(p):
                out[os.path.relpath(p, root)] = ('link', os.readlink(p))
            else:
                out[os.path.relpath(p, root)] = (open(p, 'rb').read(), os.stat(p).st_mtime_ns)
    return out


def write(root, rel, text):
    p = os.path.join(root, rel)
    os.makedirs(os.path.dirname(p), exist_ok=True)
    with open(p, 'w', newline='') as f:
        f.write(text)
    old = time.time() - 3600
    os.utime(p, (old, old))


def scenarios(pid):
    """yields (name, check function(root) -> None | str)"""
    fmt = lib(UNFORMATTED)
    S = []

    def tree(root):
        write(root, 'a.typ', UNFORMATTED)
        write(root, 'b.typ', fmt)
        write(root, 'bad.typ', ERRONEOUS)
        write(root, 'crlf.typ', CRLF)
        write(root, 'sub/c.typ', UNFORMATTED)
        write(root, 'sub/.hidden.typ', UNFORMATTED)
        write(root, '.git/d.typ', UNFORMATTED)
        write(root, 'sub/.cache/e.typ', UNFORMATTED)
        write(root, 'notes.txt', UNFORMATTED)
        write(root, 'sub/typ', UNFORMATTED)
        write(root, '.hiddenroot/x.typ', UNFORMATTED)
        write(root, 'outside/target.typ', UNFORMATTED)

    if pid == 'C14':
        def check_files(root):
            tree(root)
            before = snapshot(root)
            import itertools
            # every ordered selection of up to three of: an unformatted file, a formatted one, an erroneous one -- the run must
            # exit 1 exactly when an unformatted file is among them, whatever the order
            combos = []
            for k in (1, 2, 3):
                for sel in itertools.permutations(('a.typ', 'b.typ', 'bad.typ'), k):
                    combos.append((['--check'] + list(sel), 1 if 'a.typ' in sel else 0))
            for args, want in combos + [(['--check', 'missing.typ', 'b.typ'], 1), (['--check', '-c', '20', 'b.typ'], 0),
                               (['--check', 'format-all', '.'], 1), (['--check', 'format-all', 'outside'], 1), (['--check', 'format-all', '.hiddenroot'], 1)]:
                rc, out, err = run(args, root)
                if snapshot(root) != before:
                    return '`typstyle %s` changed a file (content or mtime)' % ' '.join(args)
                if fmt.strip() in out or '#let' in out:
                    return '`typstyle %s` printed formatted text: %r' % (' '.join(args), out[:80])
                if rc != want:
                    return '`typstyle %s` exited %d, expected %d' % (' '.join(args), rc, want)
            return None
        S.append(('check mode on files and trees', check_files))

        def check_stdin(root):
            for text, want in ((UNFORMATTED, 1), (fmt, 0), (ERRONEOUS, 0), (lib(CRLF) or CRLF, 0)):
                rc, out, err = run(['--check'], root, stdin=text.encode())
                if '#let' in out:
                    return '`typstyle --check` on stdin printed text'
                if rc != want:
                    return '`typstyle --check` on stdin %r exited %d, expected %d' % (text[:30], rc, want)
            return None
        S.append(('check mode on stdin', check_stdin))

        def check_crlf(root):
            # a CRLF file whose formatted form differs from its bytes must be reported
            write(root, 'c.typ', CRLF)
            want = 0 if lib(CRLF) == CRLF else 1
            rc, out, err = run(['--check', 'c.typ'], root)
            return None if rc == want else '`typstyle --check` on a CRLF file exited %d, expected %d (library output %s its content)' % (rc, want, 'equals' if want == 0 else 'differs from')
        S.append(('check mode on a CRLF file', check_crlf))

    if pid == 'C15':
        def inplace(root):
            tree(root)
            before = snapshot(root)
            rc, out, err = run(['-i', 'a.typ', 'b.typ', 'bad.typ', 'missing.typ', 'sub/c.typ'], root)
            after = snapshot(root)
            if rc == 0:
                return 'in-place run with a missing file exited 0'
            for f in ('a.typ', 'sub/c.typ'):
                if after[f][0].decode() != fmt:
                    return '%s was not rewritten to exactly the formatted text (a failure on another input affected it?)' % f
            for f in before:
                if f not in ('a.typ', 'sub/c.typ') and after.get(f) != before[f]:
                    return '%s (not an eligible, changed, well-formed target) was modified' % f
            return None
        S.append(('in-place on several files with one missing', inplace))

        def format_all(root):
            for top in ('.', 'sub', '.hiddenroot'):
                shutil.rmtree(root, ignore_errors=True)
                os.makedirs(root)
                tree(root)
                os.symlink(os.path.join(root, 'outside', 'target.typ'), os.path.join(root, 'sub', 'link.typ'))
                os.makedirs(os.path.join(root, 'sub', 'dir.typ'), exist_ok=True)
                before = snapshot(root)
                rc, out, err = run(['format-all', top], root)
                after = snapshot(root)
                base = os.path.normpath(top)
                for f in before:
                    rel = os.path.relpath(f, base) if base != '.' else f
                    inside = not rel.startswith('..')
                    hidden = inside and any(part.startswith('.') for part in rel.split(os.sep))
                    eligible = inside and not hidden and f.endswith('.typ') and before[f][0] != 'link' and isinstance(before[f][0], bytes)
                    want = lib(before[f][0].decode()) if eligible else None
                    if eligible and want is not None and want != before[f][0].decode():
                        if after[f][0].decode() != want:
                            return '`format-all %s`: eligible file %s was not rewritten to exactly the formatted text' % (top, f)
                    elif after.get(f) != before[f]:
                        return '`format-all %s`: %s must keep its bytes and mtime but was modified' % (top, f)
            return None
        S.append(('format-all over a tree with hidden entries, links and non-typ files', format_all))

    if pid == 'C16':
        def agree(root):
            write(root, 'w.typ', WIDE)
            write(root, 'a.typ', UNFORMATTED)
            write(root, 'bad.typ', ERRONEOUS)
            for (c, t, r) in ((80, 2, False), (20, 4, False), (4, 8, False), (0, 1, True), (120, 3, True), (1, 64, False)):
                opts = ['-c', str(c), '-t', str(t)] + (['--reorder-import-items'] if r else [])
                want = lib(WIDE, c, t, r)
                rc, out, err = run(opts + ['w.typ'], root)
                if out != want:
                    return 'stdout of `typstyle %s w.typ` differs from the library with Config{max_width:%d, tab_spaces:%d, reorder:%s}' % (' '.join(opts), c, t, r)
                rc, out, err = run(opts, root, stdin=WIDE.encode())
                if out != want:
                    return 'stdin mode with %s differs from the library' % ' '.join(opts)
                rc, out, err = run(opts + ['a.typ', 'w.typ'], root)
                if out != lib(UNFORMATTED, c, t, r) + want:
                    return 'several files are not concatenated in argument order exactly as the library returns them (%s)' % ' '.join(opts)
                write(root, 'i.typ', WIDE)
                run(opts + ['-i', 'i.typ'], root)
                if open(os.path.join(root, 'i.typ'), newline='').read() != want:
                    return 'in-place result with %s differs from the library' % ' '.join(opts)
                os.makedirs(os.path.join(root, 'd'), exist_ok=True)
                write(root, 'd/f.typ', WIDE)
                run(opts + ['format-all', 'd'], root)
                if open(os.path.join(root, 'd', 'f.typ'), newline='').read() != want:
                    return 'format-all result with %s differs from the library' % ' '.join(opts)
            rc, out, err = run(['bad.typ'], root)
            if out != ERRONEOUS:
                return 'erroneous input is not printed unchanged'
            # several files, well-formed and erroneous ones mixed: stdout is the concatenation in argument order
            import itertools
            texts = {'a.typ': lib(UNFORMATTED), 'w.typ': lib(WIDE), 'bad.typ': ERRONEOUS}
            for k in (2, 3):
                for sel in itertools.permutations(('a.typ', 'w.typ', 'bad.typ'), k):
                    rc, out, err = run(list(sel), root)
                    if out != ''.join(texts[f] for f in sel):
                        return 'stdout of `typstyle %s` is not the in-order concatenation of the library results (erroneous input unchanged)' % ' '.join(sel)
            return None
        S.append(('all front-ends agree with the library', agree))
    return S


def find_failing_scenario(pid, rec) -> bool:
    if not build():
        rec['replay_note'] = 'CLI does not build against the current tree: ' + _built.get('log', '')[-400:]
        return False
    for name, fn in scenarios(pid):
        root = tempfile.mkdtemp(prefix='vp-cli-')
        try:
            why = fn(root)
        except Exception as e:  # noqa
            why = None
            rec.setdefault('replay_note', '')
            rec['replay_note'] += ' scenario %r could not run: %s;' % (name, e)
        finally:
            shutil.rmtree(root, ignore_errors=True)
        if why:
            rec['input'] = {'scenario': name, 'oracle_says': why}
            return True
    rec['replay_note'] = rec.get('replay_note', '') + ' all CLI scenarios of %s pass on the real binary' % pid
    return False


def replay_scenario(pid, inp) -> int:
    if not build():
        print('CLI does not build')
        return 2
    for name, fn in scenarios(pid):
        if name == inp.get('scenario'):
            root = tempfile.mkdtemp(prefix='vp-cli-')
            try:
                why = fn(root)
            finally:
                shutil.rmtree(root, ignore_errors=True)
            if why:
                print('REPRODUCED on the real binary: ' + why)
                return 1
            print('not reproduced on the current tree')
            return 0
    print('unknown scenario')
    return 2


if __name__ == '__main__':
    import sys
    rec = {}
    print(sys.argv[1], find_failing_scenario(sys.argv[1], rec), json.dumps(rec, indent=1))
