#!/usr/bin/env python3
"""Generates contracts/core/gen_converters.vc: the common contract bundle of the `convert_*` methods of PrettyPrinter.

Every converter gets, for all inputs satisfying the typed-node invariant and the parser facts:
  [nest_unit C12]     nest_ok(r@, tab_spaces)           -- every Nest it builds uses the configured indent unit
  [comment_safe C04 C06] t_closed(r@) (or t_safe for the few that may end with a line comment)
Function-specific clauses (exact leaf text, verbatim when disabled, ...) are added through EXTRA below.
Hand-written contracts for the engines live in the other .vc files.  Run: python3 contracts/gen_converters.py
"""
import os

P = 'crates/typstyle-core/src/pretty/'
# (file, fn, node expr (typed param or untyped), kind) ; kind: 'typed' param implements AstNode, 'untyped' is &SyntaxNode
T = [
    ('mod.rs', 'convert_expr', 'expr', 'typed'),
    ('mod.rs', 'convert_expr_impl', 'expr', 'typed'),
    ('text.rs', 'convert_text', 'text', 'typed'),
    ('text.rs', 'convert_space', 'space', 'typed'),
    ('text.rs', 'convert_parbreak', 'parbreak', 'typed'),
    ('code_misc.rs', 'convert_ident', 'ident', 'typed'),
    ('code_misc.rs', 'convert_array_item', 'array_item', 'typed'),
    ('code_misc.rs', 'convert_dict_item', 'dict_item', 'typed'),
    ('code_misc.rs', 'convert_param', 'param', 'typed'),
    ('code_misc.rs', 'convert_pattern', 'pattern', 'typed'),
    ('code_misc.rs', 'convert_destructuring_item', 'destructuring_item', 'typed'),
    ('code_flow.rs', 'convert_named', 'named', 'typed'),
    ('code_flow.rs', 'convert_keyed', 'keyed', 'typed'),
    ('code_flow.rs', 'convert_spread', 'spread', 'typed'),
    ('code_flow.rs', 'convert_unary', 'unary', 'typed'),
    ('code_flow.rs', 'convert_binary', 'binary', 'typed'),
    ('code_flow.rs', 'convert_closure', 'closure', 'typed'),
    ('code_flow.rs', 'convert_let_binding', 'let_binding', 'typed'),
    ('code_flow.rs', 'convert_destruct_assignment', 'destruct_assign', 'typed'),
    ('code_flow.rs', 'convert_contextual', 'contextual', 'typed'),
    ('code_flow.rs', 'convert_conditional', 'conditional', 'typed'),
    ('code_flow.rs', 'convert_while_loop', 'while_loop', 'typed'),
    ('code_flow.rs', 'convert_for_loop', 'for_loop', 'typed'),
    ('code_flow.rs', 'convert_return', 'return_stmt', 'typed'),
    ('code_flow.rs', 'convert_include', 'include', 'typed'),
    ('code_flow.rs', 'convert_set_rule', 'set_rule', 'typed'),
    ('code_flow.rs', 'convert_show_rule', 'show_rule', 'typed'),
    ('code_flow.rs', 'convert_expr_flow', 'node', 'untyped'),
    ('code_chain.rs', 'convert_field_access', 'field_access', 'typed'),
    ('code_chain.rs', 'convert_field_access_plain', 'field_access', 'typed'),
    ('code_chain.rs', 'convert_dot_chain', 'node', 'untyped'),
    ('code_chain.rs', 'convert_binary_chain', 'binary', 'typed'),
    ('code_list.rs', 'convert_code_block', 'code_block', 'typed'),
    ('code_list.rs', 'convert_parenthesized_impl', 'parenthesized', 'typed'),
    ('code_list.rs', 'convert_array', 'array', 'typed'),
    ('code_list.rs', 'convert_dict', 'dict', 'typed'),
    ('code_list.rs', 'convert_destructuring', 'destructuring', 'typed'),
    ('code_list.rs', 'convert_params', 'params', 'typed'),
    ('func_call.rs', 'convert_func_call', 'func_call', 'typed'),
    ('func_call.rs', 'convert_func_call_plain', 'func_call', 'typed'),
    ('func_call.rs', 'convert_func_call_args', 'args', 'typed'),
    ('func_call.rs', 'convert_args', 'args', 'typed'),
    ('func_call.rs', 'convert_parenthesized_args', 'args', 'typed'),
    ('func_call.rs', 'convert_parenthesized_args_as_list', 'args', 'typed'),
    ('func_call.rs', 'convert_args_in_math', 'args', 'typed'),
    ('func_call.rs', 'convert_additional_args', 'args', 'typed'),
    ('func_call.rs', 'convert_arg', 'arg', 'typed'),
    ('import.rs', 'convert_import', 'import', 'typed'),
    ('import.rs', 'convert_import_item_path', 'import_item_path', 'typed'),
    ('import.rs', 'convert_import_item_renamed', 'import_item_renamed', 'typed'),
    ('markup.rs', 'convert_content_block', 'content_block', 'typed'),
    ('markup.rs', 'convert_strong', 'strong', 'typed'),
    ('markup.rs', 'convert_emph', 'emph', 'typed'),
    ('markup.rs', 'convert_raw', 'raw', 'typed'),
    ('markup.rs', 'convert_ref', 'reference', 'typed'),
    ('markup.rs', 'convert_heading', 'heading', 'typed'),
    ('markup.rs', 'convert_list_item', 'list_item', 'typed'),
    ('markup.rs', 'convert_enum_item', 'enum_item', 'typed'),
    ('markup.rs', 'convert_term_item', 'term_item', 'typed'),
    ('markup.rs', 'convert_list_item_like', 'item', 'untyped'),
    ('math.rs', 'convert_equation', 'equation', 'typed'),
    ('math.rs', 'convert_math', 'math', 'typed'),
    ('math.rs', 'convert_math_delimited', 'math_delimited', 'typed'),
    ('math.rs', 'convert_math_attach', 'math_attach', 'typed'),
    ('math.rs', 'convert_math_primes', 'math_primes', 'typed'),
    ('math.rs', 'convert_math_frac', 'math_frac', 'typed'),
    ('math.rs', 'convert_math_root', 'math_root', 'typed'),
    ('parened_expr.rs', 'convert_parenthesized', 'parenthesized', 'typed'),
    ('parened_expr.rs', 'convert_expr_with_optional_paren', 'expr', 'typed'),
    ('table.rs', 'convert_table', 'table', 'typed'),
]
# converters whose result may legitimately end inside a line comment (caller must terminate it)
MAY_OPEN = {'convert_markup', 'convert_markup_impl', 'convert_comment'}

LEAF_EXACT = '[leaf_text_exact C10 C08] r@ == txt({n}.text_s())'
VERBATIM = '[verbatim_when_disabled C07] self.store_s().disabled_s({n}.span_s()) ==> r@ == txt({n}.full_text_s())'
ROUTE = '[marked_expression_is_emitted_verbatim C07] self.store_s().disabled_s({n}.span_s()) && ast::expr_kind({n}.kind_s()) ==> r@ == txt({n}.full_text_s())'
EXTRA = {
    'convert_destructuring': {'serves': 'C01', 'closures': [
        '@replace ".print_doc(ListStyle {" => ".print_doc({ let vp_sty = ListStyle {" rule R30',
        '@replace "add_trailing_sep_single: only_one_pattern,\\n                ..Default::default()\\n            })" => "add_trailing_sep_single: only_one_pattern,\\n                ..Default::default()\\n            }; proof { assert(vp_sty.add_trailing_sep_single == only_one_pattern && !vp_sty.tight_delim && vp_sty.separator@ == \\",\\"@); } vp_sty })" rule R30',
        '@note [a_single_pattern_keeps_its_comma C01] the style handed to the list engine asks for the trailing separator exactly when the destructuring is one pattern (`(a,)` is not `(a)`); the engine clause is ListStylist::print_doc#ensures.single_item_keeps_its_separator']},
    'convert_array': {'serves': 'C01 C09', 'closures': [
        '@replace ".print_doc(ListStyle {" => ".print_doc({ let vp_sty = ListStyle {" rule R30',
        '@replace "no_indent: !is_explicit,\\n                ..Default::default()\\n            })" => "no_indent: !is_explicit,\\n                ..Default::default()\\n            }; proof { assert(is_explicit ==> vp_sty.add_trailing_sep_single && !vp_sty.tight_delim && vp_sty.separator@ == \\",\\"@); assert(!is_explicit ==> vp_sty.add_trailing_sep_always == ends_with_comma); } vp_sty })" rule R30',
        '@note [a_one_element_array_keeps_its_comma C01] `(1,)` is not `(1)`; [a_math_row_keeps_its_trailing_comma C01 C09]; the engine clause is ListStylist::print_doc#ensures.single_item_keeps_its_separator',
        '@insert before "ListStylist::new(self)"',
                                   '    proof { assert(!is_explicit ==> ${ctx}.mode == ctx.mode); }   // [a_row_of_a_2d_math_argument_stays_in_math_mode C01 C09]',
                                   '    proof { assert(is_explicit ==> ${ctx}.mode == Mode::CodeCont); }   // [a_parenthesised_array_is_converted_as_code C01]']},
    'convert_array_item': {'ensures': [ROUTE], 'serves': 'C07'},
    'convert_dict_item': {'ensures': [ROUTE], 'serves': 'C07'},
    'convert_param': {'ensures': [ROUTE], 'serves': 'C07'},
    'convert_destructuring_item': {'ensures': [ROUTE], 'serves': 'C07'},
    'convert_arg': {'ensures': [ROUTE, '[a_positional_argument_is_converted_in_the_context_given C01 C04] ast::expr_kind({n}.kind_s()) ==> r@ == expr_doc_s(ctx, {n})'], 'serves': 'C07'},
    'convert_expr_with_optional_paren': {'proof': ['reveal_strlit("("); reveal_strlit(")"); reveal_strlit("{"); reveal_strlit("}"); lemma_optional_paren_words_all(self.unit_s(), "("@, ")"@); lemma_optional_paren_words_all(self.unit_s(), "{"@, "}"@);']},
    'convert_expr': {'ensures': ['[result_is_a_function_of_context_and_node assumed C01] r@ == expr_doc_s(ctx, {n})', VERBATIM, '[leaf_kinds_exact C10 C08] !self.store_s().disabled_s({n}.span_s()) && is_exact_leaf_kind({n}.kind_s()) ==> r@ == txt({n}.text_s())'], 'serves': 'C07 C10'},
    'convert_expr_impl': {'ensures': ['[leaf_kinds_exact C10 C08] is_exact_leaf_kind({n}.kind_s()) ==> r@ == txt({n}.text_s())'], 'serves': 'C10',
                          'proof': ['reveal_strlit("none"); reveal_strlit("auto"); reveal_strlit("break"); reveal_strlit("continue"); pf_loop_kw({n});',
                                    'assert(!is_inner_kind({n}.kind_s()) && !is_ws_kind({n}.kind_s()) ==> w_ok(txt({n}.text_s()), sig_leaves({n})));',
                                    'assert("none"@[0] == \'n\' && "auto"@[0] == \'a\' && "break"@[0] == \'b\' && "continue"@[0] == \'c\');',
                                    'assert({n}.kind_s() == SyntaxKind::None ==> w_ok(txt("none"@), sig_leaves({n})));',
                                    'assert({n}.kind_s() == SyntaxKind::Auto ==> w_ok(txt("auto"@), sig_leaves({n})));',
                                    'assert({n}.kind_s() == SyntaxKind::LoopBreak ==> w_ok(txt("break"@), sig_leaves({n})));',
                                    'assert({n}.kind_s() == SyntaxKind::LoopContinue ==> w_ok(txt("continue"@), sig_leaves({n})));']},
    'convert_math': {'ensures': [VERBATIM], 'serves': 'C07 C09'},
    'convert_ident': {'ensures': [LEAF_EXACT], 'serves': 'C10'},
    'convert_strong': {'proof': ['reveal_strlit("*");', 'pf_markup_container({n}); let ghost ch = {n}.children_s(); pf_children({n}); pf_sig(ch[0]); pf_sig(ch[2]); pf_token_text(ch[0]); pf_token_text(ch[2]); reveal_with_fuel(sig_concat, 4); assert(ch.drop_last().drop_last().drop_last() =~= Seq::<&SyntaxNode>::empty()); assert(sig_concat(ch) =~= sig_leaves(ch[0]) + sig_leaves(ch[1]) + sig_leaves(ch[2])); lemma_w_algebra();']},
    'convert_emph': {'proof': ['reveal_strlit("_");', 'pf_markup_container({n}); let ghost ch = {n}.children_s(); pf_children({n}); pf_sig(ch[0]); pf_sig(ch[2]); pf_token_text(ch[0]); pf_token_text(ch[2]); reveal_with_fuel(sig_concat, 4); assert(ch.drop_last().drop_last().drop_last() =~= Seq::<&SyntaxNode>::empty()); assert(sig_concat(ch) =~= sig_leaves(ch[0]) + sig_leaves(ch[1]) + sig_leaves(ch[2])); lemma_w_algebra();']},
    'convert_content_block': {'proof': ['reveal_strlit("["); reveal_strlit("]"); assert("["@ =~= seq![\'[\']); assert("]"@ =~= seq![\']\']);', 'pf_markup_container({n}); let ghost ch = {n}.children_s(); pf_children({n}); pf_sig(ch[0]); pf_sig(ch[2]); pf_token_text(ch[0]); pf_token_text(ch[2]); reveal_with_fuel(sig_concat, 4); assert(ch.drop_last().drop_last().drop_last() =~= Seq::<&SyntaxNode>::empty()); assert(sig_concat(ch) =~= sig_leaves(ch[0]) + sig_leaves(ch[1]) + sig_leaves(ch[2])); lemma_w_algebra();']},
    'convert_ref': {'proof': ['reveal_strlit("@"); reveal_with_fuel(pieces, 4);'], 'ensures': ['[target_exact C10] pieces(r@).len() >= 2 && pieces(r@)[0] == txt("@"@) && pieces(r@)[1] == txt(ast::Ref({n}).target_s())',
                                '[supplement_is_converted_with_all_its_words C08 C01 C06] ast::Ref({n}).supplement_s() is Some && unmarked(self.store_s(), ast::Ref({n}).supplement_s()->Some_0.node()) ==> (exists|d: DocV| r@ == #[trigger] cat(cat(txt("@"@), txt(ast::Ref({n}).target_s())), d) && w_ok(d, sig_leaves(ast::Ref({n}).supplement_s()->Some_0.node())))',
                                '[without_supplement_nothing_else_is_emitted C08] ast::Ref({n}).supplement_s() is None ==> r@ == cat(txt("@"@), txt(ast::Ref({n}).target_s()))'], 'serves': 'C10 C08'},
    'convert_dot_chain': {'requires': ['[only_for_field_accesses_and_calls] {n}.kind_s() == SyntaxKind::FieldAccess || {n}.kind_s() == SyntaxKind::FuncCall']},
    'convert_field_access_plain': {'proof': ['reveal_strlit("."); lemma_w_algebra(); if !has_comment_child({n}.children_s()) { lemma_field_access_words({n}); pf_unmarked(self.store_s(), {n}); pf_sig({n}.children_s()[field_idx_s({n})]); assert("."@ =~= seq![\'.\']); }']},
    'convert_expr_flow': {'requires': ['{n}.kind_s() != SyntaxKind::Markup', '[only_for_keyword_expression_nodes] matches!({n}.kind_s(), SyntaxKind::Contextual | SyntaxKind::Conditional | SyntaxKind::WhileLoop | SyntaxKind::FuncReturn | SyntaxKind::ModuleInclude)']},
    'convert_list_item_like': {'requires': ['matches!({n}.kind_s(), SyntaxKind::ListItem | SyntaxKind::EnumItem | SyntaxKind::TermItem)']},
    'convert_binary': {'proof': ['reveal_strlit("("); reveal_strlit(")"); lemma_optional_paren_words_all(self.unit_s(), "("@, ")"@);'], 'closures': ['@closure 0 ret "(d: ArenaDoc<\'a>)"', '  ensures', '    - doc_closed(d@, self.unit_s())',
                                    '    - [chain_words_preserved C01 C06] unmarked(self.store_s(), binary.node()) ==> w_ok(d@, sig_leaves(binary.node()))']},
    'convert_text': {'ensures': ['[text_exact C08 C10] r@ == txt({n}.full_text_s())'], 'serves': 'C08 C10'},
    'convert_space': {'ensures': ['[space_or_break C08 C09] r@ == (if has_newline_s({n}.text_s()) { DocV::Hardline } else { sp() })'], 'serves': 'C08 C09'},
    'convert_parbreak': {'ensures': ['[break_count C08] r@ == repeat_doc(DocV::Hardline, count_newlines_s({n}.text_s()))'], 'serves': 'C08',
                         'proof': ['lemma_repeat_doc_hardline(count_newlines_s({n}.text_s()), self.unit_s()); lemma_words_repeat_hardline(count_newlines_s({n}.text_s()));']},
    'convert_pattern': {'ensures': [VERBATIM], 'serves': 'C07', 'proof': ['reveal_strlit("_");']},
    'convert_code_block': {'ensures': ['[verbatim_when_body_disabled C07] code_body_disabled(self.store_s(), {n}) ==> r@ == txt({n}.full_text_s())'], 'serves': 'C07',
                           'closures': ['@replace "nodes.extend(code.to_untyped().children())" => "vp_vec_extend(&mut nodes, code.to_untyped().children())" rule R9',
                                        '@replace "nodes.into_iter()" => "vp_vec_into_iter(nodes)" rule R9']},
}


# flow-like converters: ordinal of the producer closure, name of its node parameter, string literals it emits
FLOW = {
    'convert_args_in_math': (3, 'child', [',', ';']),
    'convert_import': (1, 'child', [':', '*']),
    'convert_named': (0, 'child', [':']),
    'convert_keyed': (0, 'child', [':']),
    'convert_closure': (0, 'child', ['=', '=>']),
    'convert_for_loop': (0, 'child', []),
    'convert_spread': (0, 'child', ['..']),
    'convert_unary': (0, 'child', []),
    'convert_binary': (1, 'child', []),
    'convert_let_binding': (0, 'child', ['=']),
    'convert_destruct_assignment': (0, 'child', ['=']),
    'convert_expr_flow': (0, 'child', []),
    'convert_set_rule': (0, 'child', []),
    'convert_show_rule': (0, 'child', [':']),
    'convert_heading': (0, 'child', []),
    'convert_list_item_like': (0, 'child', []),
    'convert_math_attach': (0, 'node', []),
    'convert_math_frac': (0, 'node', []),
    'convert_math_root': (0, 'node', []),
    'convert_math_delimited': (0, 'node', []),
    'convert_import_item_path': (0, 'child', ['.']),
    'convert_import_item_renamed': (0, 'child', []),
    'convert_field_access_plain': (0, 'child', ['.']),
}


# state that the producer closure captures mutably (rule R29: turned into an untracked cell)
CELLS = {'convert_args_in_math': ['peek_hashed_arg'], 'convert_named': ['seen_name'], 'convert_keyed': ['seen_key'], 'convert_closure': ['look_ahead'], 'convert_for_loop': ['look_ahead']}

# extra postconditions of a flow producer closure (appended to its `ensures`)
FLOW_EXTRA = {
    'convert_args_in_math': [
        '[line_break_in_an_argument_list_stays_a_line_break C09] child.kind_s() == SyntaxKind::Space && has_newline_s(child.text_s()) ==> (fitem.0 matches Some(rp) && rp.doc@ == DocV::Hardline && !rp.space_before && !rp.space_after)',
        '[blank_around_a_separator_never_becomes_a_line_break C09] child.kind_s() == SyntaxKind::Space && !has_newline_s(child.text_s()) ==> fitem.0 is None',
        '[every_separator_of_a_math_argument_list_is_re_emitted C01] (child.kind_s() == SyntaxKind::Comma ==> (fitem.0 matches Some(rp) && rp.doc@ == txt(","@))) && (child.kind_s() == SyntaxKind::Semicolon ==> (fitem.0 matches Some(rp) && rp.doc@ == txt(";"@)))',
    ],
    'convert_math_delimited': [
        '[inner_whitespace_kept_exactly C09] node.kind_s() == SyntaxKind::Space ==> (fitem.0 matches Some(rp) && rp.doc@ == space_piece(node) && !rp.space_before && !rp.space_after)',
        '[math_body_tight C09] node.kind_s() == SyntaxKind::Math ==> (fitem.0 matches Some(rp) && !rp.space_before && !rp.space_after)',
        '[marked_body_is_emitted_verbatim C07] node.kind_s() == SyntaxKind::Math && self.store_s().disabled_s(node.span_s()) ==> (fitem.0 matches Some(rp) && rp.doc@ == txt(node.full_text_s()))',
    ],
}

# ---- W (C01 / C06): `unmarked(node) ==> w_ok(r@, sig_leaves(node))` -- nothing added, dropped, duplicated or reordered.
# Proved for the converters listed here; for every other converter the same clause is ASSUMED at its call sites (`assumed`),
# never proved at its definition, and reported as such in the evidence.
W_PROVED = {
    # flow-based converters (closure contracts below)
    'convert_args_in_math', 'convert_named', 'convert_keyed', 'convert_spread', 'convert_unary', 'convert_let_binding', 'convert_destruct_assignment', 'convert_expr_flow', 'convert_set_rule',
    'convert_show_rule', 'convert_heading', 'convert_list_item_like', 'convert_math_attach', 'convert_math_frac', 'convert_math_root',
    'convert_import_item_path', 'convert_import_item_renamed', 'convert_binary',
    # wrappers
    'convert_expr_with_optional_paren', 'convert_field_access', 'convert_content_block', 'convert_strong', 'convert_emph',
    'convert_contextual', 'convert_conditional', 'convert_while_loop', 'convert_return', 'convert_include',
    'convert_list_item', 'convert_enum_item', 'convert_term_item',
    # leaves and dispatchers
    'convert_dot_chain', 'convert_field_access_plain', 'convert_parenthesized',
    'convert_text', 'convert_space', 'convert_parbreak', 'convert_ident', 'convert_expr', 'convert_expr_impl', 'convert_pattern', 'convert_array_item', 'convert_dict_item',
    'convert_param', 'convert_destructuring_item',
    # list-based (through the list engine)
    'convert_array', 'convert_destructuring', 'convert_params', 'convert_parenthesized_impl', 'convert_code_block',
    # math
    'convert_math',
    # function calls
    'convert_func_call', 'convert_func_call_plain', 'convert_func_call_args', 'convert_args', 'convert_arg',
}
# flow producers that convert every inner expression child with `self.convert_expr(ctx, expr)` where `ctx` is the closure's own parameter
CTX_PASSING = {'convert_args_in_math', 'convert_named', 'convert_keyed', 'convert_spread', 'convert_unary', 'convert_binary', 'convert_expr_flow', 'convert_set_rule', 'convert_show_rule',
               'convert_math_attach', 'convert_math_frac', 'convert_math_root'}

# flow producers whose state is an untracked cell (R29): which child is emitted depends on the state, so "nothing is dropped" cannot
# be stated per call; what holds in every state is that whatever is emitted for a child carries exactly that child's words
# (nothing added, duplicated, replaced or taken from elsewhere)
W_EMITS_ONLY = {'convert_closure', 'convert_for_loop'}

# C07 routing: every flow producer hands an expression child that carries an `@typstyle off` mark to an entry point that emits it
# verbatim.  Not claimed for producers whose choice of entry point depends on untracked state (R29).
NO_VERBATIM_ROUTING = {'convert_closure', 'convert_for_loop', 'convert_math_delimited', 'convert_import', 'convert_args_in_math'}   # the latter: own clause in FLOW_EXTRA (only the Math body)

# converters whose W clause is not about the whole node (hand-written in their own .vc file)
W_OWN = {'convert_table', 'convert_parenthesized_args', 'convert_parenthesized_args_as_list', 'convert_additional_args'}

# GRAMMAR (parser fact PF10, trusted, validated on the corpus by `vp-replay FACTS`): besides expressions, whitespace, comments
# and `#`, a node of the given kind has only children of the listed kinds.  The same table yields the spec function
# `child_kind_ok` (prelude/grammar_gen.rs) and the domain of each flow producer closure.
GRAMMAR = {
    'Named': ['Colon', 'Underscore', 'Destructuring'],
    'Keyed': ['Colon'],
    'Spread': ['Dots'],
    'Unary': ['Plus', 'Minus', 'Not'],
    'Binary': ['Plus', 'Minus', 'Star', 'Slash', 'And', 'Or', 'EqEq', 'ExclEq', 'Lt', 'LtEq', 'Gt', 'GtEq', 'Eq', 'PlusEq', 'HyphEq', 'StarEq', 'SlashEq', 'In', 'Not'],
    'LetBinding': ['Let', 'Eq', 'Destructuring', 'Underscore'],
    'DestructAssignment': ['Eq', 'Destructuring', 'Underscore'],
    'SetRule': ['Set', 'Args', 'If'],
    'ShowRule': ['Show', 'Colon'],
    'Heading': ['HeadingMarker', 'Markup'],
    'ListItem': ['ListMarker', 'Markup', 'Parbreak'],
    'EnumItem': ['EnumMarker', 'Markup', 'Parbreak'],
    'TermItem': ['TermMarker', 'Markup', 'Colon', 'Parbreak'],
    'MathAttach': ['Underscore', 'Hat'],
    'MathFrac': ['Slash'],
    'MathRoot': ['Root'],
    'ImportItemPath': ['Dot'],
    'RenamedImportItem': ['ImportItemPath', 'As'],
    'Contextual': ['Context'],
    'Conditional': ['If', 'Else'],
    'WhileLoop': ['While'],
    'FuncReturn': ['Return'],
    'ModuleInclude': ['Include'],
    'FieldAccess': ['Dot'],
}
# the kinds of the node each flow converter is called on
FLOW_NODEKINDS = {
    'convert_args_in_math': ['Args'],
    'convert_named': ['Named'], 'convert_keyed': ['Keyed'],
    'convert_spread': ['Spread'], 'convert_unary': ['Unary'], 'convert_binary': ['Binary'], 'convert_let_binding': ['LetBinding'],
    'convert_destruct_assignment': ['DestructAssignment'], 'convert_set_rule': ['SetRule'], 'convert_show_rule': ['ShowRule'],
    'convert_heading': ['Heading'], 'convert_list_item_like': ['ListItem', 'EnumItem', 'TermItem'],
    'convert_math_attach': ['MathAttach'], 'convert_math_frac': ['MathFrac'], 'convert_math_root': ['MathRoot'],
    'convert_import_item_path': ['ImportItemPath'], 'convert_import_item_renamed': ['RenamedImportItem'],
    'convert_expr_flow': ['Contextual', 'Conditional', 'WhileLoop', 'FuncReturn', 'ModuleInclude'],
    'convert_field_access_plain': ['FieldAccess'],
}


GRAMMAR.update({
    'Array': ['LeftParen', 'RightParen', 'Comma', 'Spread'],
    'Destructuring': ['LeftParen', 'RightParen', 'Comma', 'Spread', 'Named', 'Underscore', 'Destructuring'],
    'Params': ['LeftParen', 'RightParen', 'Comma', 'Spread', 'Named', 'Underscore', 'Destructuring'],
    'Parenthesized': ['LeftParen', 'RightParen', 'Underscore', 'Destructuring'],
    # code blocks: braces around one Code node, whose children are expressions separated by `;` / line breaks
    'CodeBlock': ['LeftBrace', 'RightBrace', 'Code'],
    'Code': ['Semicolon'],
    # argument lists (code and math): positional arguments are expressions
    'Args': ['LeftParen', 'RightParen', 'Comma', 'Semicolon', 'Spread', 'Named'],
})
# a `#` occurs only below these nodes (markup, math)
HASH_PARENTS = ['Markup', 'Math', 'MathAttach', 'MathFrac', 'MathRoot', 'MathDelimited', 'Args', 'Equation', 'Named', 'Array', 'Spread']

# parents below which no (other) expression occurs: only the listed kinds
NO_EXPR_PARENTS = {
    'Heading': ['HeadingMarker', 'Markup'],
    'ListItem': ['ListMarker', 'Markup', 'Parbreak'],
    'EnumItem': ['EnumMarker', 'Markup', 'Parbreak'],
    'TermItem': ['TermMarker', 'Markup', 'Colon', 'Parbreak'],
    'ImportItemPath': ['Dot', 'Ident'],
    'RenamedImportItem': ['ImportItemPath', 'As', 'Ident'],
}
GRAMMAR.update(NO_EXPR_PARENTS)


def flow_domain(fn):
    ks = []
    for pk in FLOW_NODEKINDS.get(fn, []):
        for k in GRAMMAR[pk]:
            if k not in ks:
                ks.append(k)
    return ks


def write_grammar(here):
    lines = ['// GENERATED by contracts/gen_converters.py from its GRAMMAR table -- parser fact PF10 (trusted; validated by `vp-replay FACTS`)',
             '/// kinds that may occur below any node: expressions, whitespace, comments and `#`',
             'pub open spec fn trivia_child_kind(k: SyntaxKind) -> bool { is_ws_kind(k) || is_comment_kind(k) || k == SyntaxKind::Hash }',
             '/// the nodes below which a `#` occurs',
             'pub open spec fn hash_parent(k: SyntaxKind) -> bool { matches!(k, %s) }' % ' | '.join('SyntaxKind::' + k for k in HASH_PARENTS),
             'pub open spec fn common_child_kind(k: SyntaxKind) -> bool { ast::expr_kind(k) || trivia_child_kind(k) }',
             '/// parents below which expressions occur only if listed',
             'pub open spec fn no_expr_parent(k: SyntaxKind) -> bool { matches!(k, %s) }' % ' | '.join('SyntaxKind::' + k for k in NO_EXPR_PARENTS),
             '#[verifier::opaque]',
             'pub open spec fn child_kind_ok(parent: SyntaxKind, child: SyntaxKind) -> bool {',
             '    (child == SyntaxKind::Hash ==> hash_parent(parent)) && (trivia_child_kind(child) || (ast::expr_kind(child) && !no_expr_parent(parent)) || match parent {']
    for pk, ks in GRAMMAR.items():
        lines.append('        SyntaxKind::%s => matches!(child, %s),' % (pk, ' | '.join('SyntaxKind::' + k for k in ks)))
    lines += ['        _ => true,', '    })', '}',
              '#[verifier::external_body]',
              'pub proof fn pf_grammar(n: &SyntaxNode)',
              '    requires tree_wf(n),',
              '    ensures forall|j: int| 0 <= j < n.children_s().len() ==> child_kind_ok(n.kind_s(), (#[trigger] n.children_s()[j]).kind_s()),',
              '{}',
              '/// the non-expression item kinds below the list-like nodes',
              'pub open spec fn list_item_kind(parent: SyntaxKind, child: SyntaxKind) -> bool {',
              '    match parent {'] + ['        SyntaxKind::%s => matches!(child, %s),' % (pk, ' | '.join('SyntaxKind::' + k for k in GRAMMAR[pk] if k not in ('LeftParen', 'RightParen', 'Comma', 'Semicolon'))) for pk in ('Array', 'Destructuring', 'Params', 'Parenthesized', 'Args')] + [
              '        _ => false,', '    }', '}',
              '/// the instance of the table for the list-like nodes',
              'pub proof fn lemma_list_child_kinds(parent: SyntaxKind, child: SyntaxKind)',
              '    requires matches!(parent, SyntaxKind::Array | SyntaxKind::Destructuring | SyntaxKind::Params | SyntaxKind::Parenthesized | SyntaxKind::Args), child_kind_ok(parent, child),',
              '    ensures trivia_child_kind(child) || ast::expr_kind(child) || matches!(child, SyntaxKind::LeftParen | SyntaxKind::RightParen | SyntaxKind::Comma | SyntaxKind::Semicolon) || list_item_kind(parent, child),',
              '        child == SyntaxKind::Hash ==> hash_parent(parent),',
              '{ reveal(child_kind_ok); }', '']
    open(os.path.join(here, '..', 'prelude', 'grammar_gen.rs'), 'w').write('\n'.join(lines))


# list-based converters: ordinal of the item-converter closure and the item type
LISTC = {
    'convert_array': (2, 'ArrayItem', ['(', ')', ',', '']),
    'convert_dict': (1, 'DictItem', ['(', ')', ',', '(:']),
    'convert_destructuring': (1, 'DestructuringItem', ['(', ')', ',']),
    'convert_params': (1, 'Param', ['(', ')', ',']),
    'convert_parenthesized_impl': (0, 'Pattern', ['(', ')', '']),
    'convert_code_block': (0, 'Expr', ['{', '}', ''], 'expr'),
}


def write_replay_tables(here):
    """the same tables in Rust, for `vp-replay FACTS` (validation of the parser facts on real trees)"""
    import re
    L = ['// GENERATED by contracts/gen_converters.py (GRAMMAR / NO_EXPR_PARENTS, prelude/wspec.rs): tables behind the parser facts', 'use typst_syntax::SyntaxKind as K;',
         "pub fn listed(parent: K) -> Option<&'static [K]> {", '    Some(match parent {']
    for pk, ks in GRAMMAR.items():
        L.append('        K::%s => &[%s],' % (pk, ', '.join('K::' + k for k in ks)))
    L += ['        _ => return None,', '    })', '}', 'pub fn no_expr_parent(k: K) -> bool { matches!(k, %s) }' % ' | '.join('K::' + k for k in NO_EXPR_PARENTS),
          'pub fn hash_parent(k: K) -> bool { matches!(k, %s) }' % ' | '.join('K::' + k for k in HASH_PARENTS)]
    w = open(os.path.join(here, '..', 'prelude', 'wspec.rs')).read()
    m = re.search(r'pub open spec fn is_inner_kind\(k: SyntaxKind\) -> bool \{\s*matches!\(k, (.*?)\)\s*\}', w, re.S)
    kinds = re.findall(r'SyntaxKind::(\w+)', m.group(1))
    L.append('pub fn is_inner_kind(k: K) -> bool { matches!(k, %s) }' % ' | '.join('K::' + k for k in kinds))
    fx = re.search(r'pub open spec fn fixed_text.*?\n\}', w, re.S).group(0)
    pairs = re.findall(r'SyntaxKind::(\w+) \{ Some\("([^"]*)"@\) \}', fx)
    L.append("pub fn fixed_text(k: K) -> Option<&'static str> { Some(match k { %s _ => return None }) }" % ' '.join('K::%s => "%s",' % (a, b) for a, b in pairs))
    open(os.path.join(here, '..', 'replay', 'src', 'grammar_gen.rs'), 'w').write('\n'.join(L) + '\n')


def main():
    out = ['# GENERATED by contracts/gen_converters.py -- common contract bundle of the convert_* methods (do not edit by hand)', '']
    for (f, fn, p, kind) in T:
        n = '%s.node()' % p if kind == 'typed' else p
        ex = EXTRA.get(fn, {})
        serves = 'C12 C04 C06 C05' + (' ' + ex['serves'] if 'serves' in ex else '')
        out.append('@fn %s%s :: PrettyPrinter::%s' % (P, f, fn))
        out.append('@serves ' + serves)
        out.append('@ret r')
        out.append('@sig')
        out.append('  requires')
        if kind == 'typed':
            out.append('    - %s.wf()' % p)
        out.append('    - tree_wf(%s)' % n)
        out.append('    - self.inv()')
        for rq in ex.get('requires', []):
            out.append('    - ' + rq.replace('{n}', n))
        out.append('  ensures')
        out.append('    - [nest_unit C12] nest_ok(r@, self.unit_s())')
        out.append('    - [comment_safe C04 C06] %s(r@)' % ('t_safe' if fn in MAY_OPEN else 't_closed'))
        for e in ex.get('ensures', []):
            out.append('    - ' + e.replace('{n}', n))
        if fn not in W_OWN:
            out.append('    - [words_preserved%s C01 C06] unmarked(self.store_s(), %s) ==> w_ok(r@, sig_leaves(%s))' % ('' if fn in W_PROVED else ' assumed', n, n))
        # standard proof prologue: parser facts for this node, and enough fuel for the abstract interpretations
        out.append('@insert body-start')
        out.append('    proof { pf_leaf_text(%s); pf_children(%s); pf_line_comments(%s); reveal_with_fuel(tr, 4); reveal_with_fuel(nest_ok, 4); reveal_with_fuel(plain_lines, 4); }' % (n, n, n))
        if fn in W_PROVED and fn in LISTC:
            out.append('    proof { pf_sig(%s); }' % n)
        elif fn in W_PROVED:
            out.append('    proof { pf_sig(%s); pf_token_text(%s); pf_unmarked(self.store_s(), %s); pf_grammar(%s); reveal(child_kind_ok); reveal_with_fuel(words, 4); reveal_with_fuel(alt_ok, 4); }' % (n, n, n, n))
        for pl in ex.get('proof', []):
            out.append('    proof { %s }' % pl.replace('{n}', n))
        if fn in FLOW:
            k, cp, lits = FLOW[fn]
            if lits:
                out.append('    proof { %s }' % ' '.join('reveal_strlit("%s");' % l for l in lits))
            out.append('@closure %d ret "(fitem: FlowItem<\'a>)"' % k)
            out.append('  requires')
            out.append('    - child_wf(%s)' % cp)
            out.append('    - !is_comment_kind(%s.kind_s())' % cp)
            out.append('  ensures')
            out.append('    - [producer_docs_closed C04 C06 C12] fitem.0 matches Some(rp) ==> doc_closed(rp.doc@, self.unit_s())')
            if fn not in NO_VERBATIM_ROUTING and not all(pk in NO_EXPR_PARENTS for pk in FLOW_NODEKINDS.get(fn, ['?'])):
                out.append('    - [marked_expression_is_emitted_verbatim C07] self.store_s().disabled_s(%s.span_s()) && ast::expr_kind(%s.kind_s()) ==> (fitem.0 matches Some(rp) && rp.doc@ == txt(%s.full_text_s()))' % (cp, cp, cp))
            if fn in CTX_PASSING:
                out.append('    - [uses_the_context_it_is_given C01] ast::expr_kind(%s.kind_s()) && is_inner_kind(%s.kind_s()) ==> (fitem.0 matches Some(rp) && rp.doc@ == expr_doc_s($1, $2))' % (cp, cp))
            if fn == 'convert_list_item_like':
                out.append('    - [paragraph_break_terminates_a_line_comment C04 C06] %s.kind_s() == SyntaxKind::Parbreak ==> (fitem.0 matches Some(rp) && t_closes(rp.doc@))' % cp)
            if fn in W_PROVED:
                noexpr = all(pk in NO_EXPR_PARENTS for pk in FLOW_NODEKINDS.get(fn, ['?']))
                dom = ' || '.join([('trivia_child_kind(%s.kind_s())' if noexpr else 'common_child_kind(%s.kind_s())') % cp] + ['%s.kind_s() == SyntaxKind::%s' % (cp, k) for k in flow_domain(fn)])
                out.append('    - [producer_words_preserved C01 C06] unmarked(self.store_s(), %s) && producer_kind(%s.kind_s()) && (%s) ==> flow_item_w(fitem, %s)' % (cp, cp, dom, cp))
            if fn in W_EMITS_ONLY:
                out.append('    - [producer_emits_only_the_words_of_its_child C01 C06] unmarked(self.store_s(), %s) && producer_kind(%s.kind_s()) ==> (fitem.0 matches Some(rp) ==> w_ok(rp.doc@, sig_leaves(%s)))' % (cp, cp, cp))
            wproof = ''
            if fn in W_PROVED or fn in W_EMITS_ONLY:
                alllits = list(lits) + ['=', ':', '..', '=>', '*', '.', '#', ',', ';', '_', '(', ')', '{', '}']
                wproof = (' pf_sig(%s); pf_token_text(%s); pf_unmarked(self.store_s(), %s); reveal_with_fuel(words, 4); reveal_with_fuel(alt_ok, 4); reveal_with_fuel(sig_concat, 2);'
                          ' lemma_words_repeat_hardline(count_newlines_s(%s.text_s())); ' % (cp, cp, cp, cp)) + ' '.join('reveal_strlit("%s");' % l for l in alllits)
            out.append('    proof: pf_leaf_text(%s); pf_children(%s); reveal_with_fuel(tr, 4); reveal_with_fuel(nest_ok, 4); lemma_repeat_doc_hardline(count_newlines_s(%s.text_s()), self.unit_s());%s' % (cp, cp, cp, wproof))
        if fn in LISTC:
            k, ty, lits = LISTC[fn][:3]
            pn = LISTC[fn][3] if len(LISTC[fn]) > 3 else 'node'
            out.append('    proof { %s reveal_with_fuel(tr, 4); }' % ' '.join('reveal_strlit("%s");' % l for l in lits))
            if fn in W_PROVED:
                # W: the children that are not items are delimiters, separators and whitespace -- wordless; a `#` introduces an item
                if fn == 'convert_code_block':
                    out.append('    proof { lemma_w_algebra(); lemma_lw_empty(); if unmarked(self.store_s(), %s) { lemma_code_block_flat(self.store_s(), %s); } }' % (n, n))
                else:
                    out.append('    proof { lemma_w_algebra(); lemma_lw_empty(); if unmarked(self.store_s(), %s) { lemma_nonitems_wordless::<ast::%s>(self.store_s(), %s); } }' % (n, ty, n))
                out.append('    proof {')
                out.append('        let e = Seq::<Seq<char>>::empty();')
                out.append('        assert forall|s: Seq<Seq<char>>| #[trigger] (e + s + e) == s by { assert(e + s + e =~= s); }')
                out.append('        assert forall|s: Seq<Seq<char>>| #[trigger] (s + e) == s by { assert(s + e =~= s); }')
                out.append('        assert forall|s: Seq<Seq<char>>| #[trigger] (e + s) == s by { assert(e + s =~= s); }')
                out.append('    }')
            out.append('@closure %d params "ctx: Context, %s: %s<\'a>" ret "(d: ArenaDoc<\'a>)"' % (k, pn, ty))
            out.append('  requires')
            out.append('    - %s.wf() && tree_wf(%s.node())' % (pn, pn))
            out.append('  ensures')
            out.append('    - [item_docs_closed C04 C06 C12] doc_closed(d@, self.unit_s())')
            out.append('    - [marked_expression_is_emitted_verbatim C07] self.store_s().disabled_s(%s.node().span_s()) && ast::expr_kind(%s.node().kind_s()) ==> d@ == txt(%s.node().full_text_s())' % (pn, pn, pn))
            if fn in W_PROVED:
                out.append('    - [item_words_preserved C01 C06] unmarked(self.store_s(), %s.node()) ==> wst(d@) && wd(d@) == sig_leaves(%s.node())' % (pn, pn))
        if fn in FLOW_EXTRA:
            out.append('  ensures')
            for e in FLOW_EXTRA[fn]:
                out.append('    - ' + e)
        out += ex.get('closures', [])
        if fn in CELLS:
            out.append('@cell ' + ' '.join(CELLS[fn]))
        out.append('@end')
        out.append('')
    here = os.path.dirname(os.path.abspath(__file__))
    write_grammar(here)
    write_replay_tables(here)
    with open(os.path.join(here, 'core', 'gen_converters.vc'), 'w') as fh:
        fh.write('\n'.join(out))
    print('wrote %d converter contracts' % len(T))


if __name__ == '__main__':
    main()
