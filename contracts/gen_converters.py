#!/usr/bin/env python3
"""Generates contracts/core/gen_converters.vc: the common contract bundle of the `convert_*` methods of PrettyPrinter.

Every converter gets, for all inputs satisfying the typed-node invariant and the parser facts:
  [nest_unit C12]     nest_ok(r@, tab_spaces)           -- every Nest it builds uses the configured indent unit
  [comment_safe C04 C06] t_closed(r@) (or t_safe for the few that may end with a line comment)
Function-specific clauses (exact leaf text, verbatim when disabled, ...) are added through EXTRA below.
Hand-written contracts for the engines live in the other .vc files.  Run: python3 contracts/gen_converters.py
"""
import os

P = 'crates/typstyle-core/src/pretty/'
# (file, fn, node expr (typed param or untyped), kind) ; kind: 'typed' param implements AstNode, 'untyped' is &SyntaxNode
T = [
    ('mod.rs', 'convert_expr', 'expr', 'typed'),
    ('mod.rs', 'convert_expr_impl', 'expr', 'typed'),
    ('text.rs', 'convert_text', 'text', 'typed'),
    ('text.rs', 'convert_space', 'space', 'typed'),
    ('text.rs', 'convert_parbreak', 'parbreak', 'typed'),
    ('code_misc.rs', 'convert_ident', 'ident', 'typed'),
    ('code_misc.rs', 'convert_array_item', 'array_item', 'typed'),
    ('code_misc.rs', 'convert_dict_item', 'dict_item', 'typed'),
    ('code_misc.rs', 'convert_param', 'param', 'typed'),
    ('code_misc.rs', 'convert_pattern', 'pattern', 'typed'),
    ('code_misc.rs', 'convert_destructuring_item', 'destructuring_item', 'typed'),
    ('code_flow.rs', 'convert_named', 'named', 'typed'),
    ('code_flow.rs', 'convert_keyed', 'keyed', 'typed'),
    ('code_flow.rs', 'convert_spread', 'spread', 'typed'),
    ('code_flow.rs', 'convert_unary', 'unary', 'typed'),
    ('code_flow.rs', 'convert_binary', 'binary', 'typed'),
    ('code_flow.rs', 'convert_closure', 'closure', 'typed'),
    ('code_flow.rs', 'convert_let_binding', 'let_binding', 'typed'),
    ('code_flow.rs', 'convert_destruct_assignment', 'destruct_assign', 'typed'),
    ('code_flow.rs', 'convert_contextual', 'contextual', 'typed'),
    ('code_flow.rs', 'convert_conditional', 'conditional', 'typed'),
    ('code_flow.rs', 'convert_while_loop', 'while_loop', 'typed'),
    ('code_flow.rs', 'convert_for_loop', 'for_loop', 'typed'),
    ('code_flow.rs', 'convert_return', 'return_stmt', 'typed'),
    ('code_flow.rs', 'convert_include', 'include', 'typed'),
    ('code_flow.rs', 'convert_set_rule', 'set_rule', 'typed'),
    ('code_flow.rs', 'convert_show_rule', 'show_rule', 'typed'),
    ('code_flow.rs', 'convert_expr_flow', 'node', 'untyped'),
    ('code_chain.rs', 'convert_field_access', 'field_access', 'typed'),
    ('code_chain.rs', 'convert_field_access_plain', 'field_access', 'typed'),
    ('code_chain.rs', 'convert_dot_chain', 'node', 'untyped'),
    ('code_chain.rs', 'convert_binary_chain', 'binary', 'typed'),
    ('code_list.rs', 'convert_code_block', 'code_block', 'typed'),
    ('code_list.rs', 'convert_parenthesized_impl', 'parenthesized', 'typed'),
    ('code_list.rs', 'convert_array', 'array', 'typed'),
    ('code_list.rs', 'convert_dict', 'dict', 'typed'),
    ('code_list.rs', 'convert_destructuring', 'destructuring', 'typed'),
    ('code_list.rs', 'convert_params', 'params', 'typed'),
    ('func_call.rs', 'convert_func_call', 'func_call', 'typed'),
    ('func_call.rs', 'convert_func_call_plain', 'func_call', 'typed'),
    ('func_call.rs', 'convert_func_call_args', 'args', 'typed'),
    ('func_call.rs', 'convert_args', 'args', 'typed'),
    ('func_call.rs', 'convert_parenthesized_args', 'args', 'typed'),
    ('func_call.rs', 'convert_parenthesized_args_as_list', 'args', 'typed'),
    ('func_call.rs', 'convert_args_in_math', 'args', 'typed'),
    ('func_call.rs', 'convert_additional_args', 'args', 'typed'),
    ('func_call.rs', 'convert_arg', 'arg', 'typed'),
    ('import.rs', 'convert_import', 'import', 'typed'),
    ('import.rs', 'convert_import_item_path', 'import_item_path', 'typed'),
    ('import.rs', 'convert_import_item_renamed', 'import_item_renamed', 'typed'),
    ('markup.rs', 'convert_content_block', 'content_block', 'typed'),
    ('markup.rs', 'convert_strong', 'strong', 'typed'),
    ('markup.rs', 'convert_emph', 'emph', 'typed'),
    ('markup.rs', 'convert_raw', 'raw', 'typed'),
    ('markup.rs', 'convert_ref', 'reference', 'typed'),
    ('markup.rs', 'convert_heading', 'heading', 'typed'),
    ('markup.rs', 'convert_list_item', 'list_item', 'typed'),
    ('markup.rs', 'convert_enum_item', 'enum_item', 'typed'),
    ('markup.rs', 'convert_term_item', 'term_item', 'typed'),
    ('markup.rs', 'convert_list_item_like', 'item', 'untyped'),
    ('math.rs', 'convert_equation', 'equation', 'typed'),
    ('math.rs', 'convert_math', 'math', 'typed'),
    ('math.rs', 'convert_math_delimited', 'math_delimited', 'typed'),
    ('math.rs', 'convert_math_attach', 'math_attach', 'typed'),
    ('math.rs', 'convert_math_primes', 'math_primes', 'typed'),
    ('math.rs', 'convert_math_frac', 'math_frac', 'typed'),
    ('math.rs', 'convert_math_root', 'math_root', 'typed'),
    ('parened_expr.rs', 'convert_parenthesized', 'parenthesized', 'typed'),
    ('parened_expr.rs', 'convert_expr_with_optional_paren', 'expr', 'typed'),
    ('table.rs', 'convert_table', 'table', 'typed'),
]
# converters whose result may legitimately end inside a line comment (caller must terminate it)
MAY_OPEN = {'convert_markup', 'convert_markup_impl', 'convert_comment'}

LEAF_EXACT = '[leaf_text_exact C10 C08] r@ == txt({n}.text_s())'
VERBATIM = '[verbatim_when_disabled C07] self.store_s().disabled_s({n}.span_s()) ==> r@ == txt({n}.full_text_s())'
EXTRA = {
    'convert_expr': {'ensures': [VERBATIM, '[leaf_kinds_exact C10 C08] !self.store_s().disabled_s({n}.span_s()) && is_exact_leaf_kind({n}.kind_s()) ==> r@ == txt({n}.text_s())'], 'serves': 'C07 C10'},
    'convert_expr_impl': {'ensures': ['[leaf_kinds_exact C10 C08] is_exact_leaf_kind({n}.kind_s()) ==> r@ == txt({n}.text_s())'], 'serves': 'C10',
                          'proof': ['reveal_strlit("none"); reveal_strlit("auto"); reveal_strlit("break"); reveal_strlit("continue");']},
    'convert_math': {'ensures': [VERBATIM], 'serves': 'C07 C09'},
    'convert_ident': {'ensures': [LEAF_EXACT], 'serves': 'C10'},
    'convert_strong': {'proof': ['reveal_strlit("*");']},
    'convert_emph': {'proof': ['reveal_strlit("_");']},
    'convert_ref': {'proof': ['reveal_strlit("@"); reveal_with_fuel(pieces, 4);'], 'ensures': ['[target_exact C10] pieces(r@).len() >= 2 && pieces(r@)[0] == txt("@"@) && pieces(r@)[1] == txt(ast::Ref({n}).target_s())'], 'serves': 'C10'},
    'convert_expr_flow': {'requires': ['{n}.kind_s() != SyntaxKind::Markup']},
    'convert_list_item_like': {'requires': ['matches!({n}.kind_s(), SyntaxKind::ListItem | SyntaxKind::EnumItem | SyntaxKind::TermItem)']},
    'convert_binary': {'closures': ['@closure 0 ret "(d: ArenaDoc<\'a>)"', '  ensures', '    - doc_closed(d@, self.unit_s())']},
    'convert_text': {'ensures': ['[text_exact C08 C10] r@ == txt({n}.full_text_s())'], 'serves': 'C08 C10'},
    'convert_space': {'ensures': ['[space_or_break C08 C09] r@ == (if has_newline_s({n}.text_s()) { DocV::Hardline } else { sp() })'], 'serves': 'C08 C09'},
    'convert_parbreak': {'ensures': ['[break_count C08] r@ == repeat_doc(DocV::Hardline, count_newlines_s({n}.text_s()))'], 'serves': 'C08',
                         'proof': ['lemma_repeat_doc_hardline(count_newlines_s({n}.text_s()), self.unit_s());']},
    'convert_pattern': {'ensures': [VERBATIM], 'serves': 'C07', 'proof': ['reveal_strlit("_");']},
    'convert_code_block': {'ensures': ['[verbatim_when_body_disabled C07] code_body_disabled(self.store_s(), {n}) ==> r@ == txt({n}.full_text_s())'], 'serves': 'C07'},
}


# flow-like converters: ordinal of the producer closure, name of its node parameter, string literals it emits
FLOW = {
    'convert_spread': (0, 'child', ['..']),
    'convert_unary': (0, 'child', []),
    'convert_binary': (1, 'child', []),
    'convert_let_binding': (0, 'child', ['=']),
    'convert_destruct_assignment': (0, 'child', ['=']),
    'convert_expr_flow': (0, 'child', []),
    'convert_set_rule': (0, 'child', []),
    'convert_show_rule': (0, 'child', [':']),
    'convert_heading': (0, 'child', []),
    'convert_list_item_like': (0, 'child', []),
    'convert_math_attach': (0, 'node', []),
    'convert_math_frac': (0, 'node', []),
    'convert_math_root': (0, 'node', []),
    'convert_math_delimited': (0, 'node', []),
    'convert_import_item_path': (0, 'child', ['.']),
    'convert_import_item_renamed': (0, 'child', []),
    'convert_field_access_plain': (0, 'child', ['.']),
}


# extra postconditions of a flow producer closure (appended to its `ensures`)
FLOW_EXTRA = {
    'convert_math_delimited': [
        '[inner_whitespace_kept_exactly C09] node.kind_s() == SyntaxKind::Space ==> (fitem.0 matches Some(rp) && rp.doc@ == space_piece(node) && !rp.space_before && !rp.space_after)',
        '[math_body_tight C09] node.kind_s() == SyntaxKind::Math ==> (fitem.0 matches Some(rp) && !rp.space_before && !rp.space_after)',
    ],
}

# list-based converters: ordinal of the item-converter closure and the item type
LISTC = {
    'convert_array': (2, 'ArrayItem', ['(', ')', ',', '']),
    'convert_dict': (1, 'DictItem', ['(', ')', ',', '(:']),
    'convert_destructuring': (1, 'DestructuringItem', ['(', ')', ',']),
    'convert_params': (1, 'Param', ['(', ')', ',']),
    'convert_parenthesized_impl': (0, 'Pattern', ['(', ')', '']),
    'convert_code_block': (0, 'Expr', ['{', '}', '']),
}


def main():
    out = ['# GENERATED by contracts/gen_converters.py -- common contract bundle of the convert_* methods (do not edit by hand)', '']
    for (f, fn, p, kind) in T:
        n = '%s.node()' % p if kind == 'typed' else p
        ex = EXTRA.get(fn, {})
        serves = 'C12 C04 C06 C05' + (' ' + ex['serves'] if 'serves' in ex else '')
        out.append('@fn %s%s :: PrettyPrinter::%s' % (P, f, fn))
        out.append('@serves ' + serves)
        out.append('@ret r')
        out.append('@sig')
        out.append('  requires')
        if kind == 'typed':
            out.append('    - %s.wf()' % p)
        out.append('    - tree_wf(%s)' % n)
        out.append('    - self.inv()')
        for rq in ex.get('requires', []):
            out.append('    - ' + rq.replace('{n}', n))
        out.append('  ensures')
        out.append('    - [nest_unit C12] nest_ok(r@, self.unit_s())')
        out.append('    - [comment_safe C04 C06] %s(r@)' % ('t_safe' if fn in MAY_OPEN else 't_closed'))
        for e in ex.get('ensures', []):
            out.append('    - ' + e.replace('{n}', n))
        # standard proof prologue: parser facts for this node, and enough fuel for the abstract interpretations
        out.append('@insert body-start')
        out.append('    proof { pf_leaf_text(%s); pf_children(%s); pf_line_comments(%s); reveal_with_fuel(tr, 4); reveal_with_fuel(nest_ok, 4); reveal_with_fuel(plain_lines, 4); }' % (n, n, n))
        for pl in ex.get('proof', []):
            out.append('    proof { %s }' % pl.replace('{n}', n))
        if fn in FLOW:
            k, cp, lits = FLOW[fn]
            if lits:
                out.append('    proof { %s }' % ' '.join('reveal_strlit("%s");' % l for l in lits))
            out.append('@closure %d ret "(fitem: FlowItem<\'a>)"' % k)
            out.append('  requires')
            out.append('    - child_wf(%s)' % cp)
            out.append('    - !is_comment_kind(%s.kind_s())' % cp)
            out.append('  ensures')
            out.append('    - [producer_docs_closed C04 C06 C12] fitem.0 matches Some(rp) ==> doc_closed(rp.doc@, self.unit_s())')
            out.append('    proof: pf_leaf_text(%s); pf_children(%s); reveal_with_fuel(tr, 4); reveal_with_fuel(nest_ok, 4); lemma_repeat_doc_hardline(count_newlines_s(%s.text_s()), self.unit_s());' % (cp, cp, cp))
        if fn in LISTC:
            k, ty, lits = LISTC[fn]
            out.append('    proof { %s reveal_with_fuel(tr, 4); }' % ' '.join('reveal_strlit("%s");' % l for l in lits))
            out.append('@closure %d params "ctx: Context, node: %s<\'a>" ret "(d: ArenaDoc<\'a>)"' % (k, ty))
            out.append('  requires')
            out.append('    - node.wf() && tree_wf(node.node())')
            out.append('  ensures')
            out.append('    - [item_docs_closed C04 C06 C12] doc_closed(d@, self.unit_s())')
        if fn in FLOW_EXTRA:
            out.append('  ensures')
            for e in FLOW_EXTRA[fn]:
                out.append('    - ' + e)
        out += ex.get('closures', [])
        out.append('@end')
        out.append('')
    here = os.path.dirname(os.path.abspath(__file__))
    with open(os.path.join(here, 'core', 'gen_converters.vc'), 'w') as fh:
        fh.write('\n'.join(out))
    print('wrote %d converter contracts' % len(T))


if __name__ == '__main__':
    main()
