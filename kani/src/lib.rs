//! Kani harnesses over the real code (files included by path from /repo's working tree).
//!  * `complete_*`: loop-free functions over their full finite domain -- a complete proof;
//!  * `bounded_*` : byte-level stand-ins for the `str` functions whose UTF-8 byte reasoning Verus abstracts -- BOUNDED
//!                  (all valid UTF-8 strings of at most N bytes), labelled bounded and never counted as proved.
#![allow(dead_code, unused_imports)]

#[path = "/repo/crates/typstyle-core/src/utils.rs"]
mod utils;
#[path = "/repo/crates/typstyle-core/src/ext.rs"]
mod ext;
#[path = "/repo/crates/typstyle-core/src/pretty/context.rs"]
mod context;

#[cfg(kani)]
mod harnesses {
    use super::*;
    use ext::StrExt;

    fn any_str<const N: usize>(buf: &mut [u8; N]) -> &str {
        let len: usize = kani::any();
        kani::assume(len <= N);
        for b in buf.iter_mut() {
            *b = kani::any();
        }
        match std::str::from_utf8(&buf[..len]) {
            Ok(s) => s,
            Err(_) => {
                kani::assume(false);
                ""
            }
        }
    }

    fn is_blank_end(c: char) -> bool {
        c.is_whitespace()
    }

    /// C11 (bounded): the result is non-empty, ends with a line feed, and no line ends with a blank
    #[kani::proof]
    #[kani::unwind(6)]
    fn bounded_strip_trailing_whitespace() {
        let mut buf = [0u8; 2];
        let s = any_str(&mut buf);
        let r = utils::strip_trailing_whitespace(s);
        assert!(!r.is_empty());
        assert!(r.ends_with('\n'));
        let b = r.as_bytes();
        let mut i = 0;
        while i < b.len() {
            if b[i] == b'\n' && i > 0 {
                // the character before a line feed is not an ASCII blank (non-ASCII blanks are covered by the Verus contract)
                assert!(b[i - 1] != b' ' && b[i - 1] != b'\t' && b[i - 1] != b'\r' && b[i - 1] != 0x0b && b[i - 1] != 0x0c);
            }
            i += 1;
        }
    }

    /// C13 / C05 (bounded): trim_range neither panics nor leaves the requested range, for every range on boundaries
    #[kani::proof]
    #[kani::unwind(6)]
    fn bounded_trim_range() {
        let mut buf = [0u8; 3];
        let s = any_str(&mut buf);
        let a: usize = kani::any();
        let b: usize = kani::any();
        kani::assume(a <= b && b <= s.len());
        kani::assume(s.is_char_boundary(a) && s.is_char_boundary(b));
        let r = utils::trim_range(s, a..b);
        assert!(a <= r.start && r.start <= r.end && r.end <= b);
        assert!(s.is_char_boundary(r.start) && s.is_char_boundary(r.end));
    }

    /// C13 / C05 (bounded): count_spaces_after_last_newline does not panic for any boundary position
    #[kani::proof]
    #[kani::unwind(6)]
    fn bounded_count_spaces() {
        let mut buf = [0u8; 3];
        let s = any_str(&mut buf);
        let i: usize = kani::any();
        kani::assume(i <= s.len() && s.is_char_boundary(i));
        let n = utils::count_spaces_after_last_newline(s, i);
        assert!(n <= i);
    }

    /// C06 / C08 (bounded): has_linebreak / count_linebreaks agree with Typst's newline set, `\r\n` counted once
    #[kani::proof]
    #[kani::unwind(6)]
    fn bounded_linebreaks() {
        let mut buf = [0u8; 3];
        let s = any_str(&mut buf);
        let mut n = 0usize;
        let mut prev_cr = false;
        for c in s.chars() {
            if typst_syntax::is_newline(c) {
                if !(prev_cr && c == '\n') {
                    n += 1;
                }
            }
            prev_cr = c == '\r';
        }
        assert!(s.has_linebreak() == (n > 0));
        assert!(s.count_linebreaks() == n);
    }

    /// C01 / C04 (complete): the Mode predicates and Context helpers over their whole (finite) domain
    #[kani::proof]
    fn complete_context() {
        use context::{Context, Mode};
        let m = match kani::any::<u8>() % 4 {
            0 => Mode::Markup,
            1 => Mode::Code,
            2 => Mode::CodeCont,
            _ => Mode::Math,
        };
        let m2 = match kani::any::<u8>() % 4 {
            0 => Mode::Markup,
            1 => Mode::Code,
            2 => Mode::CodeCont,
            _ => Mode::Math,
        };
        let bs: bool = kani::any();
        let cond: bool = kani::any();
        let c = Context { mode: m, break_suppressed: bs };
        assert!(m.is_markup() == matches!(m, Mode::Markup));
        assert!(m.is_code() == matches!(m, Mode::Code | Mode::CodeCont));
        assert!(m.is_code_continued() == matches!(m, Mode::CodeCont));
        assert!(m.is_math() == matches!(m, Mode::Math));
        let c1 = c.with_mode(m2);
        assert!(c1.mode == m2 && c1.break_suppressed == bs);
        let c2 = c.with_mode_if(m2, cond);
        assert!(c2.break_suppressed == bs && c2.mode == if cond { m2 } else { m });
        let c3 = c.suppress_breaks();
        assert!(c3.mode == m && c3.break_suppressed);
    }

    /// (complete) BoolExt::replace
    #[kani::proof]
    fn complete_bool_replace() {
        use ext::BoolExt;
        let mut b: bool = kani::any();
        let v: bool = kani::any();
        let old = b;
        let r = b.replace(v);
        assert!(r == old && b == v);
    }
}
