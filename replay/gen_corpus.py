#!/usr/bin/env python3
"""Writes build/gen-corpus/*.typ: small systematic inputs, every expression form in every syntactic context, with and without
comments and line breaks.  Deterministic (no randomness); regenerated when missing.  Used by replay only (never decides a property):
to attach a concrete failing input to an obligation the verifier reported as failed, and in the thorough tier's sampled sweep."""
import os, re, shutil

HERE = os.path.dirname(os.path.abspath(__file__))
OUT = os.path.join(os.path.dirname(HERE), 'build', 'gen-corpus')

# expression forms (code syntax, no leading '#')
EXPRS = {
    'ident': 'alpha',
    'int': '12',
    'neg': '-1',
    'float': '1.5',
    'dotfloat': '1.',
    'numeric': '2em',
    'str': '"a  b"',
    'str_nl': '"a\n   b  "',
    'bool': 'true',
    'none': 'none',
    'auto': 'auto',
    'label_arg': '<lbl>',
    'call': 'f(1, b: 2)',
    'call_empty': 'f()',
    'call_content': 'f(1)[x][y]',
    'call_only_content': 'f[x *y*]',
    'call_nested': 'f(g(h(1, 2), 3), k: (a: 1))',
    'call_spread': 'f(..args, 1)',
    'call_trailing_comma': 'f(1, 2,)',
    'call_long': 'calculate(first_argument_value, second_argument_value, third_argument_value, named: fourth_argument_value)',
    'dot': 'a.b',
    'dotcall': 'a.b()',
    'chain': 'a.b().c().d(1)',
    'chain_long': 'scores.pairs().filter(pair => pair.at(1) != none).sorted(key: pair => pair.at(1)).map(p => p.at(0)).join(", ")',
    'chain_args': 'a.b(1, 2).c[x]',
    'array': '(1, 2, 3)',
    'array1': '(1,)',
    'array0': '()',
    'array_nested': '((1, 2), (3, (4, 5)))',
    'array_spread': '(..a, 1, ..b)',
    'dict': '(a: 1, b: 2)',
    'dict0': '(:)',
    'dict_str_key': '("a b": 1, c: 2)',
    'dict_spread': '(..a, b: 1)',
    'paren': '(alpha)',
    'paren_lit': '(1)',
    'paren_neg': '(-1)',
    'paren2': '((1 + 2))',
    'paren_str': '("s")',
    'paren_arr': '((1, 2))',
    'paren_block': '({ 1 })',
    'unary_not': 'not a',
    'unary_neg_paren': '-(1 + 2)',
    'binary': '1 + 2',
    'binary_chain': 'a + b * c - d / e',
    'binary_long': 'first_operand_value + second_operand_value + third_operand_value + fourth_operand_value + fifth_operand',
    'binary_cmp': 'a == b and c != d or not e',
    'not_in': 'a not in b',
    'in': 'a in (1, 2)',
    'assign': 'x = 1',
    'add_assign': 'x += 1',
    'closure': 'x => x + 1',
    'closure_params': '(x, y: 2, ..rest) => x + y',
    'closure_block': '(x) => { x }',
    'closure_content': 'it => [*#it*]',
    'closure_destruct': '((a, b)) => a + b',
    'closure_underscore': '_ => 1',
    'closure_chain_body': 'x => x.a().b().c()',
    'closure_binary_body': 'x => x + long_name_number_one + long_name_number_two + long_name_number_three + long_name_number_four',
    'codeblock': '{ 1 }',
    'codeblock2': '{ let a = 1; a + 1 }',
    'codeblock_nl': '{\n  let a = 1\n  a\n}',
    'codeblock0': '{}',
    'content': '[a *b* c]',
    'content0': '[]',
    'content_nl': '[\n  a\n\n  b\n]',
    'if': 'if a { 1 } else { 2 }',
    'if_chain': 'if a { 1 } else if b { 2 } else { 3 }',
    'if_content': 'if a [x] else [y]',
    'while': 'while x < 3 { x += 1 }',
    'for': 'for x in (1, 2) { x }',
    'for_chain': 'for (k, v) in dict.pairs().filter(p => p.at(1) != none) { k }',
    'for_content': 'for x in range(3) [#x]',
    'for_binary': 'for x in a + b { x }',
    'let': 'let x = 1',
    'let_fn': 'let f(x, y: 1) = x + y',
    'let_destruct': 'let (a, b, ..c) = (1, 2, 3)',
    'let_dict_destruct': 'let (a: x, b) = (a: 1, b: 2)',
    'let_noinit': 'let x',
    'set': 'set text(size: 12pt, fill: red)',
    'set_if': 'set text(red) if true',
    'show': 'show heading: it => it.body',
    'show_set': 'show heading: set text(red)',
    'show_all': 'show: doc => doc',
    'show_str': 'show "a": [b]',
    'import': 'import "a.typ": b, c as d, e.f',
    'import_star': 'import "a.typ": *',
    'import_paren': 'import "a.typ": (b, c,)',
    'import_as': 'import "a.typ" as m',
    'import_bare': 'import "a.typ"',
    'include': 'include "a.typ"',
    'context': 'context text.size',
    'context_chain': 'context counter(page).get().first()',
    'return': 'return',
    'return_v': 'return 1 + 2',
    'break': 'break',
    'field_num': '1.0.abs()',
    'method_paren': '(1.).abs()',
    'raw_arg': 'f(`x y`)',
    'math_arg': 'f($x + y$)',
    'destruct_assign': '(a, b) = (b, a)',
    'nested_content_call': 'f(a)[#g(b)[c]]',
    'table': 'table(columns: 3, [a], [b], [c], [d], [e], [f])',
    'table_header': 'table(columns: 2, table.header[A][B], [1], [2])',
    'table_spread': 'table(columns: 2, ..cells)',
    'grid': 'grid(columns: (1fr, 2fr), [a], [b])',
}

# where comments can be woven in: (name, text)
EXPRS_CMT = {
    'call_bc': 'f(1, /* c */ 2)',
    'call_lc': 'f(1, // c\n  2)',
    'call_lc_end': 'f(1, 2 // c\n)',
    'call_bc_front': 'f(/* c */ 1)',
    'array_lc': '(1, // c\n 2)',
    'array_bc_end': '(1, 2 /* c */)',
    'array_only_cmt': '(/* c */)',
    'dict_lc': '(a: 1, // c\n b: 2)',
    'dict_colon_bc': '(a /* c */: 1)',
    'paren_bc': '(/* c */ 1)',
    'paren_lc': '(1 // c\n)',
    'binary_bc': 'a /* c */ + b',
    'binary_lc': 'a + // c\n b',
    'unary_bc': '- /* c */ a',
    'chain_bc': 'a /* c */ .b() /* d */ .c()',
    'chain_lc': 'a.b() // c\n .c()',
    'closure_bc': '(x /* c */) => x',
    'closure_arrow_bc': 'x /* c */ => x',
    'params_lc': '(x, // c\n y) => x',
    'let_bc': 'let /* c */ x /* d */ = /* e */ 1',
    'let_lc': 'let x = // c\n 1',
    'if_bc': 'if /* c */ a /* d */ { 1 } /* e */ else /* f */ { 2 }',
    'if_lc': 'if a { 1 } // c\n else { 2 }',
    'for_bc': 'for /* a */ x /* b */ in /* c */ y /* d */ { x }',
    'for_lc': 'for x in y // c\n { x }',
    'while_bc': 'while /* c */ a { }',
    'set_bc': 'set /* c */ text(red)',
    'show_bc': 'show /* a */ heading /* b */ : /* c */ it => it',
    'import_bc': 'import /* a */ "a.typ" /* b */ : /* c */ b /* d */ , c',
    'import_lc': 'import "a.typ": (b, // c\n c)',
    'codeblock_lc': '{ // c\n 1 }',
    'codeblock_bc': '{ /* c */ }',
    'codeblock_lc_end': '{ 1 // c\n}',
    'context_bc': 'context /* c */ a',
    'return_bc': 'return /* c */ 1',
    'named_bc': 'f(a /* c */ : 1)',
    'spread_bc': 'f(.. /* c */ a)',
    'destruct_lc': 'let (a, // c\n b) = (1, 2)',
    'not_in_bc': 'a not /* c */ in b',
    'content_arg_bc': 'f(1) /* c */ [x]',
    'dot_bc_before_call': 'a.b /* c */ (1)',
    'dot_bc_inner': 'a /* c */ .b.c', 'dot_bc_inner_call': 'a /* c */ .b.c.d(1)', 'dot_lc_inner': 'f(x, a // c\n .b.c)',
    'array1_bc': '(1 /* c */,)', 'array1_bc_after_comma': '(1, /* c */)', 'destruct1_bc': 'let (a /* c */,) = (1,)',
}

# contexts: how an expression is embedded; {E} is replaced
CONTEXTS = {
    'hash': 'text #{E} text\n',
    'hash_semi': 'text #{E}; text\n',
    'hash_eol': '#{E}\nnext line\n',
    'block': '#{\n  {E}\n}\n',
    'block_inline': '#{ {E} }\n',
    'let_rhs': '#let v = {E}\n',
    'arg': '#f({E})\n',
    'named_arg': '#f(k: {E})\n',
    'array_item': '#(1, {E}, 3)\n',
    'dict_value': '#(k: {E})\n',
    'content_in_code': '#{ [#{E}] }\n',
    'closure_body': '#let g = x => {E}\n',
    'for_iter': '#for x in {E} { x }\n',
    'if_cond': '#if {E} { 1 }\n',
    'math_hash': '$ a + #{E} + b $\n',
    'math_arg': '$ f(#{E}, x) $\n',
    'math_attach': '$ x^#{E} + y_#{E} $\n',
    'math_frac': '$ 1/#{E} $\n',
    'math_root': '$ √#{E} $\n',
    'math_delim': '$ (#{E}) $\n',
    'math_2d_arg': '$ mat(#{E}; 1) $\n',
    'list_item': '- #{E}\n- second\n',
    'enum_item': '+ #{E} tail\n',
    'term_item': '/ t: #{E}\n',
    'heading': '= H #{E}\n',
    'strong': '*#{E}*\n',
    'show_rhs': '#show heading: {E}\n',
    'paren_wrap': '#({E})\n', 'hash_paren_inline': 'text #({E}) text\n', 'hash_call_inline': 'text #g({E}) more\n', 'math_hash_paren': '$ #({E}) $\n',
    'binary_operand': '#let v = 1 + {E}\n',
    'unary_operand': '#let v = -{E}\n',
    'field_target': '#let v = ({E}).len()\n',
    'context_body': '#context {E}\n',
    'return_in_fn': '#let g() = { return {E} }\n',
}

# statement-only forms can not stand in expression position
STMT_ONLY = {'destruct1_bc', 'let', 'let_fn', 'let_destruct', 'let_dict_destruct', 'let_noinit', 'set', 'set_if', 'show', 'show_set', 'show_all', 'show_str',
             'import', 'import_star', 'import_paren', 'import_as', 'import_bare', 'return', 'return_v', 'break', 'assign', 'add_assign',
             'destruct_assign', 'let_bc', 'let_lc', 'set_bc', 'show_bc', 'import_bc', 'import_lc', 'return_bc', 'destruct_lc'}
STMT_CONTEXTS = ('hash', 'hash_eol', 'block', 'block_inline', 'content_in_code', 'list_item', 'math_hash', 'math_attach')

MATH = {
    'attach': '$ a_b^c $', 'attach_paren': '$ a_(b c)^(d) $', 'attach_hash': '$ a_#b $', 'attach_hash_chain': '$ a_#b.c $', 'attach_hash_call': '$ x^#f(1) $',
    'frac': '$ a / b $', 'frac_paren': '$ (a + b) / (c d) $', 'frac_hash': '$ #a / #b $', 'frac_hash_chain': '$ #a.b / c $',
    'root': '$ √x $', 'root_hash': '$ √#x $', 'root_paren': '$ √(a + b) $',
    'delim': '$ (a + b) $', 'delim_sp': '$ ( a ) $', 'delim_nl': '$ (\n a \n) $', 'delim_empty': '$ () $', 'delim_bracket': '$ [a, b] $', 'delim_abs': '$ |x| $',
    'call': '$ sin(x) $', 'call_sp': '$ sin( x ) $', 'call_2d': '$ mat(1, 2; 3, 4) $', 'call_named': '$ vec(delim: "[", 1, 2) $', 'call_empty': '$ f() $', 'call_blank': '$ vec( ) $',
    'call_field_2d': '$ ab.cd(1, 2; 3, 4) $', 'call_field_trailing_comma': '$ std.mat(1, 2,) $', 'call_nested_2d': '$ mat(vec(1; 2), 3; 4) $', 'call_field_semicolon_end': '$ ab.cd(1; 2;) $',
    'call_nl': '$ mat(\n 1, 2;\n 3, 4\n) $', 'call_hash_arg': '$ f(#a, #b) $', 'call_hash_semi': '$ mat(#a; #b) $', 'call_content': '$ f(x)[y] $',
    'align': '$ a &= b \\\n  &= c $', 'linebreak': '$ a \\ b $', 'linebreak_end': '$ a \\\n$', 'primes': "$ f'' $", 'str': '$ "a b" $', 'shorthand': '$ a -> b != c $',
    'block_eq': '$\n  a + b\n$', 'inline_eq': 'text $a+b$ text', 'eq_cmt_bc': '$ a /* c */ + b $', 'eq_cmt_lc': '$ a // c\n + b $', 'eq_cmt_lc_end': '$ a // c\n$',
    'eq_label': '$ a $ <eq>', 'hash_code': '$ #{ 1 + 2 } $', 'hash_let': '$ #let x = 1; x $', 'hash_call_chain': '$ #a.b(1).c $', 'hash_paren_unit': '$ #(1)x $',
    'field': '$ a.b $', 'ident_call_dot': '$ arrow.r(x) $', 'nested_delim': '$ ((a)) [b (c)] $', 'text_num': '$ 1.5 x 2 $', 'escape': '$ \\$ \\# $',
    'attach_cmt': '$ a_b /* c */ ^d $', 'frac_cmt': '$ a / /* c */ b $', 'delim_cmt_nl': '$ (/* c */\n a) $', 'call_lc': '$ f(a, // c\n b) $', 'call_lc_end': '$ f(a // c\n) $',
    'delim_bc_before_close': '$ (a + b /* c */) dot [u v /* d */] $', 'delim_bc_after_open': '$ (/* c */ a + b) $', 'delim_lc_before_close': '$ (a + b // c\n) $', 'delim_bc_glued': '$ (a/* c */) {b /* d */ } $',
    'delim_bc_between': '$ (a /* c */ b) $', 'abs_bc_before_close': '$ |x /* c */| $', 'floor_bc': '$ ⌊ x /* c */ ⌋ $',
    'inline_nl': '$a\n b$', 'inline_nl_sum': '$a +\n b + c$', 'inline_nl_call': '$f(x)\n g(y)$', 'inline_sp': '$a  b$',
    'multi_space': '$ a    b $', 'tab': '$ a\tb $', 'many_nl': '$ a\n\n\n b $',
}

MARKUP = {
    'para': 'one two  three\nfour\n\nfive\n', 'strong_emph': '*a* _b_ *_c_*\n', 'heading': '= A\n== B  c\n', 'heading_cmt': '= A // c\n',
    'list': '- a\n- b\n  - c\n  - d\n- e\n', 'list_para': '- a\n\n  b\n- c\n', 'enum': '+ a\n+ b\n3. c\n', 'term': '/ a: b\n/ c: d\n  e\n', 'term_bs': '/ a \\ : b\n',
    'list_cmt': '- a // c\n- b /* d */\n', 'list_lc_own_line': '- a\n  // c\n  b\n', 'term_lc': '/ t: a\n  // c\n  b\n', 'list_code': '- #f(1)\n- #{ 1 }\n- #[x]\n',
    'raw_inline': 'a `b  c` d\n', 'raw_block': '```rust\nfn main() {\n    x  \n}\n```\n', 'raw_block_indent': '- ```py\n  a\n    b\n  ```\n', 'raw_slashes': '```\n// not a comment\n```\n',
    'raw_block_ff': '```lisp\n(defun first ())\n\x0c\n(defun second ())\n```\n', 'raw_block_vt': '```\ncolumn one\x0bcolumn two\n```\n', 'raw_block_nel': '```\na\u0085b\u2028c\n```\n',
    'raw_one_line': '```typ a b ```\n', 'raw_lang_sp': '``` x```\n', 'raw_trail_blank': '```\nline   \n  \n```\n',
    'label_ref': 'text <lbl> @lbl @lbl[p. 1]\n', 'ref_supplement_code': '@thm[Theorem #n] and @thm[Thm. #n;bis] and @thm[the theorem /* c */ above] @eq[#f(1) x]\n',
    'unicode_trailing': 'text\u3000\nnext\u00a0\n= Heading\u2003\n- item\u2002\n// c\u3000\n#let x = 1\u00a0\n', 'link': 'https://example.com/a_b text\n', 'escape': '\\# \\* \\_ \\\\ \\u{1f600}\n', 'shorthand': "a -- b --- c ... ~ -?\n",
    'smartquote': '"a" \'b\'\n', 'linebreak': 'a \\\nb \\ c\n', 'linebreak_end': 'a \\\n', 'parbreak_many': 'a\n\n\n\nb\n', 'trailing_ws': 'a   \nb\t\n',
    'cmt_lines': '// one\n// two\ntext // three\n/* four */ text /* five */\n', 'cmt_block_multi': '/* a\n   b\n c */\ntext\n', 'cmt_nested': '/* a /* b */ c */ x\n',
    'cmt_only': '// c', 'cmt_eof': 'text // c', 'cmt_between_paras': 'a\n\n// c\n\nb\n', 'cmt_indent': '  // c\n  text\n',
    'off': '// @typstyle off\n#f( 1,2 )\n#f( 1,2 )\n', 'off_block': '/* @typstyle off */ #f( 1,2 )\n', 'off_code': '#{\n  // @typstyle off\n  f( 1,2 )\n  f( 1,2 )\n}\n',
    'off_math': '$ // @typstyle off\n a+b   c $\n', 'off_list': '- // @typstyle off\n  #f( 1,2 )\n', 'off_arg': '#f(\n  // @typstyle off\n  ( 1,2 ),\n  ( 3,4 ),\n)\n',
    'content_nested': '#[a #[b #[c]]]\n', 'content_nl': '#[\n  a\n]\n', 'content_sp': '#[ a ]\n', 'content_list': '#[\n  - a\n  - b\n]\n', 'content_list_bs': '#[- a \\ ]\n',
    'hash_seq': '#a#b #c.d#e()\n', 'hash_semi': '#a; #b;c\n', 'hash_dot_text': '#a.b. c\n', 'hash_paren_text': '#(a)b #(1)em\n', 'hash_call_text': '#f(1)(2) #f[a] [b]\n',
    'cr': 'a\r\nb\rc\n', 'cr_cmt': '// c\rfoo\n', 'tabs': '\ta\n\t\tb\n', 'unicode_ws': 'a\u00a0b\u2003c\u3000d\n', 'vt_ff': 'a\x0bb\x0cc\n', 'nel_ls': 'a\u0085b\u2028c\u2029d\n',
    'empty': '', 'only_nl': '\n\n', 'only_sp': '   ', 'emoji': '*\U0001F600* 日本語 text\n', 'long_line': ('word ' * 40) + '\n',
    'equation_in_list': '- $a + b$\n- $\n  c\n$\n', 'figure': '#figure(\n  image("a.png"),\n  caption: [A *b*],\n) <fig>\n', 'set_show_top': '#set page(width: 10cm)\n#show: it => it\ntext\n',
    'for_markup': '#for x in range(3).map(i => i * 2).rev() [\n  - #x\n]\n', 'if_else_markup': '#if a [x] else [y] tail\n', 'let_content': '#let x = [\n  a\n]\n',
    'import_top': '#import "@preview/a:0.1.0": b, a as c, d\n#import "x.typ": *\n', 'import_sorted': '#import "a.typ": z, y as b, c.d, a\n', 'import_dup': '#import "a.typ": a, b as a\n',
    'import_cmt': '#import "a.typ": b, /* c */ a\n', 'import_dup_path': '#import "m.typ": b.x, a.x\n', 'import_dup_renamed': '#import "m.typ": z, y as z, a\n',
    'import_samehead_path': '#import "m.typ": p.z, p.a\n', 'import_lc': '#import "a.typ": (\n  z, // c\n  a,\n)\n', 'import_multi': '#import "a.typ": c, b, a\n#import "b.typ": f.g as k, e, d.h\n', 'import_renamed_path': '#import "a.typ": x.y as b, a\n',
}


# `@typstyle off` directives: {D} is the directive comment (line or block form), {P} a badly formatted payload expression
OFF_PAYLOADS = {'product': 'a  *  b', 'compare': 'y   >=   2', 'call': 'f( 1,2 )', 'array': '( 1,2 ,3)', 'binary': 'a  +  b', 'block': '{ x;y }', 'dict': '(a:1,b : 2)', 'closure': '(x)=>x+1', 'content': '[ a  *b* ]', 'chain': 'a . b( 1 ).c'}
OFF_MATH_PAYLOADS = {'sum': 'a  +   b', 'call': 'sin( x )  y', 'attach': 'x_1  ^2   z'}
OFF_POSITIONS = {
    'markup': '{D}#{P}\n#{P}\n', 'markup_inline': 'text {D}#{P} text #{P}\n', 'codeblock': '#{\n  {D}{P}\n  {P}\n}\n', 'arg': '#g(\n  {D}{P},\n  {P},\n)\n',
    'arg_second': '#g(1, {D}{P}, {P})\n', 'array_item': '#(\n  {D}{P},\n  {P},\n)\n', 'let_rhs': '#let v = {D}{P}\n', 'named_value': '#g(k: {D}{P}, j: {P})\n',
    'dict_value': '#(k: {D}{P}, j: {P})\n', 'closure_body': '#let g = x => {D}{P}\n', 'for_body': '#for x in y {D}{P}\n', 'if_cond': '#if {D}{P} { 1 }\n',
    'binary_rhs': '#let v = 1 + {D}{P}\n', 'binary_rhs_and': '#let v = x == 1 and {D}{P}\n', 'binary_lhs_inner': '#let v = k + {D}{P} + m\n', 'paren': '#({D}{P})\n', 'content_block': '#[\n  {D}#{P}\n  #{P}\n]\n', 'list_item_tail': '- a {D}#{P}\n- #{P}\n',
    'return': '#let g() = { return {D}{P} }\n', 'show_rhs': '#show heading: {D}{P}\n', 'set_if': '#set text(red) if {D}{P}\n', 'destruct_item': '#let ({D}a , b) = {P}\n',
    'math_hash': '$ x + {D}#{P} $\n', 'spread': '#g(..{D}{P})\n', 'unary': '#let v = -{D}{P}\n', 'field_target': '#let v = {D}{P}.len()\n', 'call_content_arg': '#g(1){D}[ a  b ]\n',
    'params_default': '#let g(a, b: {D}{P}) = a\n', 'context': '#context {D}{P}\n', 'include': '#include {D}"a" + {P}\n',
}
OFF_MATH_POSITIONS = {
    'equation': '$ {D}{M} $\n', 'equation_block': '$\n  {D}{M}\n$\n', 'delim': '$ ( {D}{M} )  dot 2 $\n', 'delim_bracket': '$ [ {D}{M} ] $\n', 'delim_in_lr': '$ lr(( {D}{M} )) $\n',
    'call_arg': '$ vec({D}{M}, c) $\n', 'call_2d': '$ mat({D}{M}; c) $\n', 'attach_sub': '$ x_{D}({M}) $\n', 'frac_num': '$ ({D}{M}) / 2 $\n', 'root': '$ √({D}{M}) $\n',
    'mid_equation': '$ p  q {D}{M} $\n', 'nested_delim': '$ ((  {D}{M} )) $\n', 'delim_after_text': '$ ( u  v {D}{M} ) $\n',
}
OFF_DIRECTIVES = {'lc': '// @typstyle off\n', 'bc': '/* @typstyle off */ '}

# tables / grids: column specifications x cell shapes
TABLE_COLS = {'n0': 'columns: 0', 'n1': 'columns: 1', 'n2': 'columns: 2', 'n3': 'columns: 3', 'hex0': 'columns: 0x0', 'big': 'columns: 99999999999999', 'neg': 'columns: -1',
              'arr0': 'columns: ()', 'arr0sp': 'columns: ( )', 'arr1': 'columns: (auto,)', 'arr2': 'columns: (1fr, 2fr)', 'auto': 'columns: auto', 'var': 'columns: n', 'none': None,
              'paren': 'columns: (2)', 'two': 'columns: 2, columns: 3', 'expr': 'columns: 1 + 1', 'rows_only': 'rows: 2'}
TABLE_CELLS = {'plain': '[a], [b], [c], [d], [e]', 'one': '[a]', 'header': 'table.header[h][i], [a], [b], [c]', 'header_mid': '[a], table.header([h]), [b], [c]',
               'footer': '[a], [b], table.footer[f]', 'hdr_ftr_only': 'table.header[h], table.footer[f]', 'exprs': '1, "s", x, f(1), [c]', 'named_after': '[a], [b], stroke: none, [c]',
               'cell': '[a], table.cell(colspan: 2)[b], [c]', 'hline': '[a], table.hline(), [b]', 'spread': '..cells, [a]', 'cmt': '[a], /* c */ [b], [c]', 'lc': '[a], // c\n  [b], [c]',
               'empty': '', 'nested': 'table(columns: 2, [x], [y]), [b], [c]', 'trailing_blocks': '[a], [b])[c][d'}


def main():
    shutil.rmtree(OUT, ignore_errors=True)
    os.makedirs(OUT)
    n = 0

    def put(name, text):
        nonlocal n
        with open(os.path.join(OUT, name + '.typ'), 'w', encoding='utf-8', newline='') as f:
            f.write(text)
        n += 1

    allx = dict(EXPRS)
    allx.update(EXPRS_CMT)
    # one file per (expression, context); the expressions are small, so is the product
    for en, e in allx.items():
        for cn, c in CONTEXTS.items():
            if en in STMT_ONLY and cn not in STMT_CONTEXTS:
                continue
            put('x-%s--%s' % (en, cn), c.replace('{E}', e))
    for mn, m in MATH.items():
        put('m-%s' % mn, m + '\n')
        put('m-%s--list' % mn, '- ' + m.replace('\n', '\n  ') + '\n')
        put('m-%s--code' % mn, '#let v = ' + m + '\n')
        put('m-%s--arg' % mn, '#f(' + m + ', 1)\n')
        put('m-%s--inline-arg' % mn, 'text #box(' + m + ') more\n')
        put('m-%s--in-math' % mn, '$ x #box(' + m + ') $\n')
    for kn, k in MARKUP.items():
        put('k-%s' % kn, k)
        if kn not in ('empty', 'only_nl', 'only_sp'):
            put('k-%s--content' % kn, '#[\n' + k + ']\n')
            put('k-%s--fnbody' % kn, '#let f() = [\n' + k + ']\n')
    for pn, pos in OFF_POSITIONS.items():
        for yn, pay in OFF_PAYLOADS.items():
            for dn, d in OFF_DIRECTIVES.items():
                put('o-%s--%s--%s' % (pn, yn, dn), pos.replace('{D}', d).replace('{P}', pay))
    for pn, pos in OFF_MATH_POSITIONS.items():
        for yn, pay in OFF_MATH_PAYLOADS.items():
            for dn, d in OFF_DIRECTIVES.items():
                put('om-%s--%s--%s' % (pn, yn, dn), pos.replace('{D}', d).replace('{M}', pay))
    for fn in ('table', 'grid'):
        for cn, c in TABLE_COLS.items():
            for ln, cells in TABLE_CELLS.items():
                args = ', '.join(x for x in (c, cells.replace('table.', fn + '.')) if x)
                put('t-%s-%s--%s' % (fn, cn, ln), '#%s(%s)\n' % (fn, args))
                if fn == 'table' and cn in ('n0', 'arr0', 'n2', 'arr2'):
                    put('t-%s-%s--%s--nested' % (fn, cn, ln), '#figure(%s(%s), caption: [c])\n' % (fn, args))
                    put('t-%s-%s--%s--code' % (fn, cn, ln), '#{\n  let t = %s(%s)\n}\n' % (fn, args))
    print('%d files in %s' % (n, OUT))


if __name__ == '__main__':
    main()
