//! vp-replay: runs the oracle of one property on concrete inputs against the REAL code (path dependency on /repo's working tree).
//!
//! Replay never decides a property: it is asked only after the verifier has reported a failed obligation, to find a concrete
//! input on which the real code visibly violates the property statement, and to re-run a recorded input.
//!
//!   vp-replay <PROP> [--widths 0,40,80,120] [--tabs 2,4] [--reorder] [--max N] <file>...
//! prints one JSON object per failing (file, config) and exits 1 if any failed, 0 otherwise.

use std::{env, fs, panic, process::ExitCode};

use typst_syntax::ast::AstNode as _;
use typst_syntax::{ast, parse, Source, SyntaxKind as K, SyntaxNode};
use typstyle_core::{Config, Typstyle};

mod grammar_gen;

fn cfg(width: usize, tab: usize, reorder: bool) -> Config {
    let mut c = Config::new().with_width(width).with_tab_spaces(tab);
    c.reorder_import_items = reorder;
    c
}

fn is_comment(k: K) -> bool {
    matches!(k, K::LineComment | K::BlockComment)
}

fn leaves<'a>(n: &'a SyntaxNode, out: &mut Vec<&'a SyntaxNode>) {
    if n.children().len() == 0 {
        out.push(n);
    } else {
        for c in n.children() {
            leaves(c, out);
        }
    }
}

fn strip_line_ends(s: &str) -> String {
    s.lines().map(|l| l.trim_end()).collect::<Vec<_>>().join("\n")
}

// ---------------------------------------------------------------------------------------------------------------------
// C01: canonical form of a tree with everything Typst treats as layout removed
#[derive(Clone, Copy, PartialEq)]
enum M {
    Markup,
    Code,
    Math,
}

fn sole_child(n: &SyntaxNode) -> Option<&SyntaxNode> {
    let mut it = n.children().filter(|c| {
        !is_comment(c.kind())
            && !matches!(c.kind(), K::Space | K::LeftParen | K::RightParen | K::LeftBrace | K::RightBrace | K::Semicolon)
    });
    let f = it.next()?;
    if it.next().is_some() {
        None
    } else {
        Some(f)
    }
}

fn canon(n: &SyntaxNode, mode: M, out: &mut Vec<String>) {
    let k = n.kind();
    if is_comment(k) || k == K::RawTrimmed {
        return;
    }
    if n.children().len() == 0 {
        match k {
            K::Space => {
                if mode == M::Markup && out.last().map(|s| s.as_str()) != Some("SP") {
                    out.push("SP".into());
                }
            }
            K::Parbreak => out.push("PAR".into()),
            // words of a paragraph: the lexer splits `Text` at arbitrary places (e.g. at double blanks)
            K::Text if mode == M::Markup => {
                for (i, w) in n.text().split(' ').enumerate() {
                    if i > 0 && out.last().map(|s| s.as_str()) != Some("SP") {
                        out.push("SP".into());
                    }
                    if w.is_empty() {
                        continue;
                    }
                    match out.last_mut() {
                        Some(l) if l.starts_with("Text:") => l.push_str(w),
                        _ => out.push(format!("Text:{w}")),
                    }
                }
            }
            // (blanks at line ends inside multi-line strings / raw text: known finding C10-F1, not re-reported here)
            K::Str | K::Text => out.push(format!("{k:?}:{}", strip_line_ends(n.text()))),
            K::Comma | K::Semicolon | K::LeftParen | K::RightParen if mode == M::Code => {}
            K::RightParen if mode == M::Math => {
                if out.last().map(|s| s.as_str()) == Some("Comma:,") {
                    out.pop();
                }
                out.push("RightParen".into());
            }
            K::Markup | K::Math | K::Code => {
                out.push(format!("({k:?}"));
                out.push(")".into());
            }
            _ => out.push(format!("{k:?}:{}", n.text())),
        }
        return;
    }
    if k == K::Parenthesized && mode != M::Math {
        if let Some(inner) = sole_child(n) {
            return canon(inner, M::Code, out);
        }
    }
    let inner = match k {
        K::Markup => M::Markup,
        K::Equation | K::Math => M::Math,
        K::CodeBlock | K::Code | K::Raw => M::Code,
        _ => mode,
    };
    out.push(format!("({k:?}"));
    let start = out.len();
    let children: Vec<&SyntaxNode> = n.children().collect();
    let last_sig = children.iter().rposition(|c| !is_comment(c.kind()) && c.kind() != K::Space);
    let mut after_hash = false;
    for (i, c) in children.iter().enumerate() {
        if c.kind() == K::Space && matches!(k, K::TermItem | K::ListItem | K::EnumItem | K::Heading) {
            continue;
        }
        if c.kind() == K::Colon && k == K::Dict {
            continue; // the lone colon of `(:)` / `(: ..x)`
        }
        let cm = if after_hash { M::Code } else { inner };
        if c.kind() != K::Space && !is_comment(c.kind()) {
            after_hash = c.kind() == K::Hash;
        }
        // optional braces around the body of a closure
        let mut body = *c;
        while body.kind() == K::Parenthesized && k == K::Closure && Some(i) == last_sig {
            match sole_child(body) {
                Some(b) => body = b,
                None => break,
            }
        }
        if k == K::Closure && Some(i) == last_sig && body.kind() == K::CodeBlock {
            if let Some(code) = sole_child(body) {
                if code.kind() == K::Code {
                    if let Some(e) = sole_child(code) {
                        canon(e, M::Code, out);
                        continue;
                    }
                }
            }
        }
        canon(c, cm, out);
    }
    if k == K::Markup {
        while out.len() > start && out.last().map(|s| s.as_str()) == Some("SP") {
            out.pop();
        }
        if out.len() > start && out[start] == "SP" {
            out.remove(start);
        }
    }
    if (k == K::Array || k == K::Args) && mode == M::Math && out.last().map(|s| s.as_str()) == Some("Comma:,") {
        out.pop();
    }
    out.push(")".into());
}

fn canonical(root: &SyntaxNode) -> Vec<String> {
    let mut v = vec![];
    canon(root, M::Markup, &mut v);
    v
}

fn first_diff(a: &[String], b: &[String]) -> String {
    let i = a.iter().zip(b.iter()).position(|(x, y)| x != y).unwrap_or(a.len().min(b.len()));
    let lo = i.saturating_sub(3);
    format!("at {}: input ..{:?}  output ..{:?}", i, &a[lo..(i + 3).min(a.len())], &b[lo..(i + 3).min(b.len())])
}

// ---------------------------------------------------------------------------------------------------------------------
// C06: comments with their neighbouring words
fn is_word(n: &SyntaxNode) -> bool {
    let k = n.kind();
    if is_comment(k) || matches!(k, K::Space | K::Parbreak | K::RawTrimmed) {
        return false;
    }
    n.text().chars().any(|c| c.is_alphanumeric())
}

fn norm_comment(t: &str) -> String {
    t.lines().map(|l| l.trim()).collect::<Vec<_>>().join("\n")
}

fn comment_view(root: &SyntaxNode) -> Vec<(String, String, String)> {
    let mut ls = vec![];
    leaves(root, &mut ls);
    let mut out = vec![];
    for (i, l) in ls.iter().enumerate() {
        if is_comment(l.kind()) {
            let prev = ls[..i].iter().rev().find(|x| is_word(x)).and_then(|x| x.text().split_whitespace().last().map(|w| w.to_string())).unwrap_or_default();
            let next = ls[i + 1..].iter().find(|x| is_word(x)).and_then(|x| x.text().split_whitespace().next().map(|w| w.to_string())).unwrap_or_default();
            out.push((norm_comment(l.text()), prev, next));
        }
    }
    out
}

// ---------------------------------------------------------------------------------------------------------------------
// C08: per Markup node, its children with each whitespace classified; C09: the same for math nodes
fn ws_class(n: &SyntaxNode) -> String {
    let nl = n.text().chars().filter(|c| typst_syntax::is_newline(*c)).count() - n.text().matches("\r\n").count();
    match n.kind() {
        K::Parbreak => format!("PAR{nl}"),
        _ => {
            if nl > 0 {
                "NL".into()
            } else {
                "SP".into()
            }
        }
    }
}

fn markup_view(n: &SyntaxNode, out: &mut Vec<Vec<String>>) {
    if n.kind() == K::Markup {
        let mut v: Vec<String> = vec![];
        for c in n.children() {
            match c.kind() {
                K::Space | K::Parbreak => v.push(ws_class(c)),
                K::Text => {
                    for (i, w) in c.text().split(' ').enumerate() {
                        if i > 0 && v.last().map(|s| s.as_str()) != Some("SP") {
                            v.push("SP".into());
                        }
                        if w.is_empty() {
                            continue;
                        }
                        match v.last_mut() {
                            Some(l) if l.starts_with("Text:") => l.push_str(w),
                            _ => v.push(format!("Text:{w}")),
                        }
                    }
                }
                K::Escape | K::Shorthand | K::SmartQuote | K::Link | K::Label | K::Linebreak => v.push(format!("{:?}:{}", c.kind(), c.text())),
                K::Ref => v.push(format!("Ref:{}", c.clone().into_text())),
                k if is_comment(k) => {}
                K::Hash => {}
                _ => v.push("X".into()),
            }
        }
        // edges may change
        while matches!(v.first().map(|s| s.as_str()), Some("SP") | Some("NL")) || v.first().map_or(false, |s| s.starts_with("PAR")) {
            v.remove(0);
        }
        while matches!(v.last().map(|s| s.as_str()), Some("SP") | Some("NL")) || v.last().map_or(false, |s| s.starts_with("PAR")) {
            v.pop();
        }
        // comments were skipped: merge whitespace that became adjacent
        v.dedup_by(|a, b| {
            let m = (a == "SP" || a == "NL") && (b == "SP" || b == "NL");
            if m && a == "NL" {
                *b = "NL".into();
            }
            m
        });
        out.push(v);
    }
    for c in n.children() {
        markup_view(c, out);
    }
}

fn math_view(n: &SyntaxNode, in_args: bool, out: &mut Vec<Vec<String>>) {
    let k = n.kind();
    if k == K::Equation {
        let block = n.cast::<ast::Equation>().map_or(false, |e| e.block());
        out.push(vec![format!("Equation block={block}")]);
    } else if matches!(k, K::Math | K::MathDelimited) {
        let mut v: Vec<String> = vec![];
        let mut after_hash = false;
        for c in n.children() {
            match c.kind() {
                K::Space => v.push(ws_class(c)),
                k if is_comment(k) => {}
                // embedded code: which expression it is belongs to C01 (redundant parentheses may go), not to the whitespace
                _ if after_hash => v.push("Embedded".into()),
                k => v.push(format!("{k:?}")),
            }
            if c.kind() != K::Space && !is_comment(c.kind()) {
                after_hash = c.kind() == K::Hash;
            }
        }
        if in_args && k == K::Math {
            while matches!(v.first().map(|s| s.as_str()), Some("SP") | Some("NL")) {
                v.remove(0);
            }
            while matches!(v.last().map(|s| s.as_str()), Some("SP") | Some("NL")) {
                v.pop();
            }
        }
        v.dedup_by(|a, b| (a == "SP" || a == "NL") && (b == "SP" || b == "NL"));
        out.push(v);
    }
    for c in n.children() {
        math_view(c, k == K::Args, out);
    }
}

// ---------------------------------------------------------------------------------------------------------------------
// C10: literal tokens
fn literal_view(root: &SyntaxNode) -> Vec<String> {
    fn go(n: &SyntaxNode, out: &mut Vec<String>) {
        match n.kind() {
            K::Raw => {
                if let Some(r) = n.cast::<ast::Raw>() {
                    let lines: Vec<String> = r.lines().map(|l| l.get().trim_end().to_string()).collect();
                    out.push(format!("Raw[{}|{:?}|{}|{:?}]", r.block(), r.lang().map(|l| l.get().to_string()), n.children().next().map(|d| d.text().len()).unwrap_or(0), lines));
                }
                return;
            }
            K::Str | K::Int | K::Float | K::Numeric | K::Ident | K::MathIdent | K::Label | K::Link | K::Escape | K::Bool | K::RefMarker => {
                out.push(format!("{:?}:{}", n.kind(), strip_line_ends(n.text())))
            }
            _ => {}
        }
        for c in n.children() {
            go(c, out);
        }
    }
    let mut v = vec![];
    go(root, &mut v);
    v
}

// ---------------------------------------------------------------------------------------------------------------------
// C07: the node after an `@typstyle off` directive appears verbatim
fn off_targets(n: &SyntaxNode, out: &mut Vec<String>) {
    let ch: Vec<&SyntaxNode> = n.children().collect();
    for (i, c) in ch.iter().enumerate() {
        if is_comment(c.kind()) && c.text().contains("@typstyle off") {
            if let Some(t) = ch[i + 1..].iter().find(|x| !matches!(x.kind(), K::Space | K::Hash) && !is_comment(x.kind())) {
                let k = t.kind();
                if t.cast::<ast::Expr>().is_some() && !matches!(k, K::Text | K::Parbreak) || matches!(k, K::Code | K::Math) {
                    out.push(strip_line_ends(&(*t).clone().into_text()));
                    continue;
                }
            }
        }
    }
    for c in ch {
        off_targets(c, out);
    }
}

// ---------------------------------------------------------------------------------------------------------------------
// C19: import item sequences
fn import_view(n: &SyntaxNode, out: &mut Vec<Vec<String>>) {
    if n.kind() == K::ImportItems {
        out.push(
            n.children()
                .filter(|c| matches!(c.kind(), K::ImportItemPath | K::RenamedImportItem))
                .map(|c| {
                    let mut ls = vec![];
                    leaves(c, &mut ls);
                    ls.iter().filter(|l| l.kind() != K::Space && !is_comment(l.kind())).map(|l| l.text().to_string()).collect::<Vec<_>>().join(" ")
                })
                .collect(),
        );
    }
    for c in n.children() {
        import_view(c, out);
    }
}

fn import_has_comment(n: &SyntaxNode, out: &mut Vec<bool>) {
    if n.kind() == K::ImportItems {
        let mut ls = vec![];
        leaves(n, &mut ls);
        out.push(ls.iter().any(|l| is_comment(l.kind())));
    }
    for c in n.children() {
        import_has_comment(c, out);
    }
}

// ---------------------------------------------------------------------------------------------------------------------
// C12: indentation is a multiple of the unit and the multiple does not depend on the unit
fn exempt_lines(text: &str) -> Vec<bool> {
    // continuation lines inside comments, strings, raw text and `@typstyle off` regions are exempt
    let root = parse(text);
    let n_lines = text.lines().count() + 1;
    let mut ex = vec![false; n_lines];
    fn mark(n: &SyntaxNode, off: usize, text: &str, ex: &mut Vec<bool>, disabled: bool) {
        let len = n.len();
        let body_off = n.kind() == K::CodeBlock && {
            let ch: Vec<&SyntaxNode> = n.children().collect();
            ch.iter().enumerate().any(|(i, c)| c.kind() == K::Code && ch[..i].iter().any(|d| is_comment(d.kind()) && d.text().contains("@typstyle off")))
        };
        let multi_tok = matches!(n.kind(), K::BlockComment | K::Str | K::Raw) || disabled || body_off;
        if multi_tok {
            let first = text[..off].matches('\n').count();
            let last = text[..off + len].matches('\n').count();
            for l in first + 1..=last {
                if l < ex.len() {
                    ex[l] = true;
                }
            }
        }
        let mut o = off;
        let ch: Vec<&SyntaxNode> = n.children().collect();
        let mut next_off = false;
        for c in ch {
            let is_dir = is_comment(c.kind()) && c.text().contains("@typstyle off");
            let d = next_off && !matches!(c.kind(), K::Space | K::Hash) && !is_comment(c.kind());
            mark(c, o, text, ex, d);
            if d {
                next_off = false;
            }
            if is_dir {
                next_off = true;
            }
            o += c.len();
        }
    }
    mark(&root, 0, text, &mut ex, false);
    ex
}

fn check_indent(src: &str, reorder: bool) -> Option<String> {
    let outs: Vec<(usize, String)> = [1usize, 2, 3, 4]
        .iter()
        .filter_map(|&t| Typstyle::new(cfg(10000, t, reorder)).format_content(src).ok().map(|o| (t, o)))
        .collect();
    if outs.len() != 4 {
        return None;
    }
    let views: Vec<Vec<(usize, String, bool)>> = outs
        .iter()
        .map(|(t, o)| {
            let ex = exempt_lines(o);
            o.lines()
                .enumerate()
                .map(|(i, l)| {
                    let ind = l.len() - l.trim_start_matches(' ').len();
                    (if ind % t == 0 { ind / t } else { usize::MAX }, l.trim_start_matches(' ').to_string(), ex.get(i).copied().unwrap_or(false))
                })
                .collect()
        })
        .collect();
    for (vi, v) in views.iter().enumerate() {
        if v.len() != views[0].len() {
            return Some(format!("tab {} yields {} lines, tab 1 yields {}", outs[vi].0, v.len(), views[0].len()));
        }
        for (i, (m, rest, ex)) in v.iter().enumerate() {
            if *ex || views[0][i].2 || rest.is_empty() {
                continue;
            }
            if *m == usize::MAX {
                return Some(format!("tab {}: line {} is not indented by a multiple of the unit: {:?}", outs[vi].0, i + 1, rest));
            }
            if *m != views[0][i].0 || *rest != views[0][i].1 {
                return Some(format!("line {}: {} units at tab {} but {} units at tab 1 ({:?})", i + 1, m, outs[vi].0, views[0][i].0, rest));
            }
        }
    }
    None
}

// ---------------------------------------------------------------------------------------------------------------------
fn check_range(src: &str, width: usize, tab: usize, max_ranges: usize) -> Option<String> {
    let source = Source::detached(src);
    if source.root().erroneous() {
        return None;
    }
    let base = canonical(source.root());
    // candidate ranges: every node's own range, plus a few ranges past the end
    let mut ranges: Vec<(usize, usize)> = vec![];
    fn collect(n: &SyntaxNode, off: usize, out: &mut Vec<(usize, usize)>) {
        out.push((off, off + n.len()));
        let mut o = off;
        for c in n.children() {
            collect(c, o, out);
            o += c.len();
        }
    }
    collect(source.root(), 0, &mut ranges);
    ranges.push((0, src.len() + 10));
    ranges.push((src.len(), src.len() + 3));
    ranges.push((src.len() + 5, src.len() + 9));
    ranges.push((0, 0));
    ranges.sort();
    ranges.dedup();
    let step = (ranges.len() / max_ranges.max(1)).max(1);
    for (s, e) in ranges.into_iter().step_by(step) {
        let t = Typstyle::new(cfg(width, tab, false));
        let r = panic::catch_unwind(panic::AssertUnwindSafe(|| t.format_source_range(&source, s..e)));
        match r {
            Err(_) => return Some(format!("range {s}..{e}: panic")),
            Ok(Err(_)) => {}
            Ok(Ok((rng, text))) => {
                let ee = e.min(src.len());
                let ss = s.min(ee);
                let req = &src[ss..ee];
                let ts = ss + (req.len() - req.trim_start().len());
                let te = ee - (req.len() - req.trim_end().len());
                if ts < te && !(rng.start <= ts && te <= rng.end) {
                    return Some(format!("range {s}..{e}: returned range {rng:?} does not cover the trimmed request {ts}..{te}"));
                }
                if rng.end > src.len() || !src.is_char_boundary(rng.start) || !src.is_char_boundary(rng.end) {
                    return Some(format!("range {s}..{e}: returned range {rng:?} is not inside the text"));
                }
                let spliced = format!("{}{}{}", &src[..rng.start], text, &src[rng.end..]);
                let root2 = parse(&spliced);
                if root2.erroneous() {
                    return Some(format!("range {s}..{e}: spliced source has syntax errors (returned {rng:?} {text:?})"));
                }
                let c2 = canonical(&root2);
                if c2 != base {
                    return Some(format!("range {s}..{e}: spliced tree differs {}", first_diff(&base, &c2)));
                }
            }
        }
    }
    None
}

// ---------------------------------------------------------------------------------------------------------------------
fn check_one(prop: &str, src: &str, width: usize, tab: usize, reorder: bool, max: usize) -> Option<String> {
    let root = parse(src);
    let erroneous = root.erroneous();
    let t = Typstyle::new(cfg(width, tab, reorder));
    let res = panic::catch_unwind(panic::AssertUnwindSafe(|| t.format_content(src)));
    if prop == "C05" {
        return match res {
            Err(_) => Some("panic".into()),
            Ok(Ok(_)) if erroneous => Some("accepted an input with syntax errors".into()),
            Ok(Err(_)) if !erroneous => Some("refused a well-formed input".into()),
            _ => {
                let w = panic::catch_unwind(|| typstyle_core::format_with_width(src, width));
                match w {
                    Err(_) => Some("format_with_width panicked".into()),
                    Ok(o) if erroneous && o != src => Some("format_with_width changed an erroneous input".into()),
                    _ => None,
                }
            }
        };
    }
    if erroneous {
        return None;
    }
    if prop == "C13" {
        return check_range(src, width, tab, max);
    }
    if prop == "C12" {
        return check_indent(src, reorder);
    }
    let out = match res {
        Ok(Ok(o)) => o,
        _ => return None, // C05's business
    };
    if prop == "C11" {
        if out.is_empty() || !out.ends_with('\n') {
            return Some("output does not end with a line feed".into());
        }
        if let Some((i, l)) = out.split('\n').enumerate().find(|(_, l)| l.chars().last().map_or(false, |c| c.is_whitespace())) {
            return Some(format!("line {} ends with a blank: {:?}", i + 1, l));
        }
        return None;
    }
    let root2 = parse(&out);
    if root2.erroneous() {
        return if matches!(prop, "C04" | "C01" | "C06") { Some(format!("output has syntax errors: {:?}", root2.errors().first().map(|e| e.message.to_string()))) } else { None };
    }
    match prop {
        "C04" => None,
        "C01" => {
            let (a, b) = (canonical(&root), canonical(&root2));
            if a != b {
                Some(first_diff(&a, &b))
            } else {
                None
            }
        }
        "C06" => {
            let (a, b) = (comment_view(&root), comment_view(&root2));
            if a != b {
                let i = a.iter().zip(b.iter()).position(|(x, y)| x != y).unwrap_or(a.len().min(b.len()));
                Some(format!("comment {}: input {:?} output {:?} ({} vs {} comments)", i, a.get(i), b.get(i), a.len(), b.len()))
            } else {
                None
            }
        }
        "C07" => {
            let mut ts = vec![];
            off_targets(&root, &mut ts);
            let o = strip_line_ends(&out);
            ts.into_iter().find(|t| !o.contains(t.as_str())).map(|t| format!("node after the directive is not reproduced verbatim: {:?}", t))
        }
        "C08" => {
            let (mut a, mut b) = (vec![], vec![]);
            markup_view(&root, &mut a);
            markup_view(&root2, &mut b);
            if a != b {
                let i = a.iter().zip(b.iter()).position(|(x, y)| x != y).unwrap_or(a.len().min(b.len()));
                Some(format!("markup node {}: input {:?} output {:?}", i, a.get(i), b.get(i)))
            } else {
                None
            }
        }
        "C09" => {
            let (mut a, mut b) = (vec![], vec![]);
            math_view(&root, false, &mut a);
            math_view(&root2, false, &mut b);
            if a != b {
                let i = a.iter().zip(b.iter()).position(|(x, y)| x != y).unwrap_or(a.len().min(b.len()));
                Some(format!("math node {}: input {:?} output {:?}", i, a.get(i), b.get(i)))
            } else {
                None
            }
        }
        "C10" => {
            let (a, b) = (literal_view(&root), literal_view(&root2));
            if a != b {
                Some(first_diff(&a, &b))
            } else {
                None
            }
        }
        "C19" => {
            let (mut a, mut b) = (vec![], vec![]);
            import_view(&root, &mut a);
            import_view(&root2, &mut b);
            if !reorder {
                if a != b {
                    return Some(format!("import items changed with reordering off: {:?} -> {:?}", a, b));
                }
                None
            } else {
                let off = Typstyle::new(cfg(width, tab, false)).format_content(src).ok()?;
                let mut flags = vec![];
                import_has_comment(&root, &mut flags);
                for (i, (x, y)) in a.iter().zip(b.iter()).enumerate() {
                    // the name an item binds is its last identifier (`a.b.c` binds c, `p.q as n` binds n)
                    let mut names: Vec<&str> = x.iter().map(|it| it.rsplit(' ').next().unwrap_or("")).collect();
                    let n_items = names.len();
                    names.sort();
                    names.dedup();
                    let dup = names.len() != n_items;
                    let cmt = flags.get(i).copied().unwrap_or(false);
                    if (dup || cmt) && x != y {
                        return Some(format!("import with {} does not keep its order: {:?} -> {:?}", if dup { "a name bound twice" } else { "comments" }, x, y));
                    }
                    let (mut xs, mut ys) = (x.clone(), y.clone());
                    xs.sort();
                    ys.sort();
                    if xs != ys {
                        return Some(format!("import items are not a permutation: {:?} -> {:?}", x, y));
                    }
                }
                // nothing else differs: drop the import item lists from both texts
                let strip = |t: &str| -> Vec<String> {
                    let r = parse(t);
                    let mut ls = vec![];
                    leaves(&r, &mut ls);
                    ls.iter().filter(|l| !matches!(l.kind(), K::Space | K::Ident | K::Comma | K::Dot | K::As | K::LeftParen | K::RightParen)).map(|l| l.text().to_string()).collect()
                };
                if strip(&off) != strip(&out) {
                    return Some("output with reordering differs outside the import items".into());
                }
                None
            }
        }
        _ => None,
    }
}

// ---------------------------------------------------------------------------------------------------------------------
// FACTS: the parser facts the contracts assume (prelude/treefacts.rs, markupspec.rs, wspec.rs, grammar_gen.rs), checked on
// every node of an error-free tree.  This validates ASSUMPTIONS; it never decides a property.
fn has_nl(t: &str) -> bool {
    t.chars().any(typst_syntax::is_newline)
}

fn check_facts(n: &SyntaxNode, parent: Option<&SyntaxNode>, in_raw: bool, is_root: bool, out: &mut Vec<String>) {
    let k = n.kind();
    let ch: Vec<&SyntaxNode> = n.children().collect();
    let is_expr = |c: &SyntaxNode| c.cast::<ast::Expr>().is_some();
    let trivia = |c: K| matches!(c, K::Space | K::Parbreak | K::LineComment | K::BlockComment | K::Hash);
    // PF1 / PF7
    for (i, c) in ch.iter().enumerate() {
        if c.kind() == K::LineComment {
            match ch.get(i + 1) {
                Some(nx) => {
                    let ok = if matches!(k, K::Markup | K::ListItem | K::EnumItem | K::TermItem) { matches!(nx.kind(), K::Space | K::Parbreak) && has_nl(nx.text()) } else { nx.kind() == K::Space && has_nl(nx.text()) };
                    if !ok {
                        out.push(format!("PF1: line comment in {k:?} followed by {:?} {:?}", nx.kind(), nx.text()));
                    }
                }
                None => {
                    if k != K::Markup {
                        out.push(format!("PF1: {k:?} ends with a line comment"));
                    } else if !is_root {
                        out.push("PF7: a nested Markup ends with a line comment".to_string());
                    }
                }
            }
        }
    }
    // PF2 / PF8 / PF9
    if ch.is_empty() {
        let t = n.text().as_str();
        match k {
            K::LineComment => {
                if !t.starts_with("//") || has_nl(t) {
                    out.push(format!("PF2: line comment text {t:?}"));
                }
            }
            K::BlockComment => {
                if !t.starts_with("/*") {
                    out.push(format!("PF2: block comment text {t:?}"));
                }
            }
            _ => {
                if t.starts_with("//") {
                    if in_raw {
                        out.push("PF2-raw: a raw text line starts with `//` (known exclusion: T over-approximates there)".to_string());
                    } else {
                        out.push(format!("PF2: {k:?} token starts with `//`: {t:?}"));
                    }
                }
            }
        }
        if k == K::None && t != "none" || k == K::Auto && t != "auto" {
            out.push(format!("PF2: literal keyword text {t:?}"));
        }
        if let Some(f) = grammar_gen::fixed_text(k) {
            if t != f {
                out.push(format!("PF9: {k:?} is spelled {t:?}, expected {f:?}"));
            }
        }
        if grammar_gen::is_inner_kind(k) && !t.is_empty() {
            out.push(format!("PF8: childless inner node {k:?} with text {t:?}"));
        }
    } else {
        if !grammar_gen::is_inner_kind(k) {
            out.push(format!("PF8: token kind {k:?} has children"));
        }
        if !n.text().is_empty() {
            out.push(format!("PF8: inner node {k:?} has text of its own"));
        }
    }
    // PF14
    for (i, c) in ch.iter().enumerate() {
        if c.kind() == K::Hash && !ch.get(i + 1).map_or(false, |nx| is_expr(nx)) {
            out.push(format!("PF14: `#` in {k:?} is not directly followed by an expression"));
        }
    }
    // PF4
    if k == K::MathDelimited && (ch.len() < 2 || ch.last().map(|c| c.kind()) == Some(K::Space)) {
        out.push("PF4: MathDelimited without delimiters at both ends".to_string());
    }
    // PF6
    for w in ch.windows(2) {
        if matches!(w[0].kind(), K::Space | K::Parbreak) && matches!(w[1].kind(), K::Space | K::Parbreak) {
            out.push(format!("PF6: adjacent whitespace tokens in {k:?}"));
        }
    }
    for c in &ch {
        if c.kind() == K::Parbreak {
            let nl = c.text().chars().filter(|x| typst_syntax::is_newline(*x)).count() - c.text().matches("\r\n").count();
            if nl < 2 {
                out.push(format!("PF6: Parbreak with {nl} line breaks"));
            }
        }
    }
    // PF10
    for c in &ch {
        let ck = c.kind();
        if ck == K::Hash && !grammar_gen::hash_parent(k) {
            out.push(format!("PF10: `#` below {k:?}"));
        }
        let ok = trivia(ck)
            || (is_expr(c) && !grammar_gen::no_expr_parent(k))
            || match grammar_gen::listed(k) {
                Some(l) => l.contains(&ck),
                None => true,
            };
        if !ok {
            out.push(format!("PF10: {ck:?} below {k:?} is not in the grammar table"));
        }
    }
    // PF11
    if matches!(k, K::LoopBreak | K::LoopContinue) {
        let words: Vec<&str> = ch.iter().filter(|c| !matches!(c.kind(), K::Space)).map(|c| c.text().as_str()).collect();
        if words != [if k == K::LoopBreak { "break" } else { "continue" }] {
            out.push(format!("PF11: {k:?} consists of {words:?}"));
        }
    }
    // PF12
    if k == K::FuncCall && !(ch.len() == 2 && is_expr(ch[0]) && ch[1].kind() == K::Args) {
        out.push(format!("PF12: FuncCall with children {:?}", ch.iter().map(|c| c.kind()).collect::<Vec<_>>()));
    }
    // PF17: a code block has exactly one Code child; with it flattened in, a line comment is still followed by its line break
    if k == K::CodeBlock {
        if ch.iter().filter(|c| c.kind() == K::Code).count() != 1 {
            out.push(format!("PF17: CodeBlock with children {:?}", ch.iter().map(|c| c.kind()).collect::<Vec<_>>()));
        }
        let mut flat: Vec<&SyntaxNode> = vec![];
        for c in &ch {
            if c.kind() == K::Code {
                flat.extend(c.children());
            } else {
                flat.push(c);
            }
        }
        for w in flat.windows(2) {
            if w[0].kind() == K::LineComment && !(w[1].kind() == K::Space && has_nl(w[1].text())) {
                out.push(format!("PF17: in a flattened code block a line comment is followed by {:?}", w[1].kind()));
            }
        }
    }
    // PF15: a content block / strong / emphasis is its two markers around one Markup
    if matches!(k, K::ContentBlock | K::Strong | K::Emph) {
        let (o, c) = match k {
            K::ContentBlock => (K::LeftBracket, K::RightBracket),
            K::Strong => (K::Star, K::Star),
            _ => (K::Underscore, K::Underscore),
        };
        if !(ch.len() == 3 && ch[0].kind() == o && ch[1].kind() == K::Markup && ch[2].kind() == c) {
            out.push(format!("PF15: {k:?} with children {:?}", ch.iter().map(|c| c.kind()).collect::<Vec<_>>()));
        }
    }
    // PF18: code-mode inner nodes end where their last token ends (trailing trivia stays outside); an ImportItems node has a child
    if grammar_gen::is_inner_kind(k) && !matches!(k, K::Markup | K::Math | K::Code | K::Raw) {
        if let Some(l) = ch.last() {
            if matches!(l.kind(), K::Space | K::LineComment | K::BlockComment | K::Parbreak) {
                out.push(format!("PF18: {k:?} ends with {:?}", l.kind()));
            }
        }
    }
    if k == K::ModuleImport {
        for (j, c) in ch.iter().enumerate() {
            if c.kind() == K::ImportItems && c.children().len() == 0 && !ch[..j].iter().any(|p| p.kind() == K::LeftParen) && !(j > 0 && ch[j - 1].kind() == K::Colon) {
                out.push("PF18: empty ImportItems neither inside parentheses nor directly after the colon".to_string());
            }
        }
    }
    // PF19: the target of a field access, the callee of a call and the left operand of a binary are the FIRST child
    // PF20: in a field access only comments and blanks stand between the target and the dot, and behind the dot only the field
    if matches!(k, K::FieldAccess | K::FuncCall | K::Binary) {
        let first = ch.first().map(|c| c.kind());
        let ok = match k {
            K::FieldAccess => n.cast::<ast::FieldAccess>().is_some_and(|f| ch.first().is_some_and(|c| c.span() == f.target().to_untyped().span())),
            K::FuncCall => n.cast::<ast::FuncCall>().is_some_and(|f| ch.first().is_some_and(|c| c.span() == f.callee().to_untyped().span())),
            _ => n.cast::<ast::Binary>().is_some_and(|f| ch.first().is_some_and(|c| c.span() == f.lhs().to_untyped().span())),
        };
        if !ok {
            out.push(format!("PF19: the first child of {k:?} is {first:?}, not its target / callee / left operand"));
        }
    }
    if k == K::FieldAccess {
        let triv = |c: &&SyntaxNode| matches!(c.kind(), K::Space | K::LineComment | K::BlockComment);
        let p = ch.iter().skip(1).position(|c| !triv(&c)).map(|i| i + 1);
        let ok = ch.first().is_some_and(|c| c.is::<ast::Expr>() && !triv(&c) && c.kind() != K::Dot)
            && p.is_some_and(|p| ch[p].kind() == K::Dot && ch[p + 1..].iter().all(|c| triv(&c) || c.kind() == K::Ident));
        let n_id = p.map(|p| ch[p + 1..].iter().filter(|c| c.kind() == K::Ident).count()).unwrap_or(0);
        let field_ok = n.cast::<ast::FieldAccess>().is_some_and(|f| p.is_some_and(|p| ch[p + 1..].iter().any(|c| c.span() == f.field().span())));
        if n_id != 1 || !field_ok {
            out.push(format!("PF20: FieldAccess with {n_id} field names behind the dot (field() is one of them: {field_ok})"));
        }
        if !ok {
            out.push(format!("PF20: FieldAccess with children {:?}", ch.iter().map(|c| c.kind()).collect::<Vec<_>>()));
        }
    }
    if k == K::Binary {
        // PF22: an operator token is spelled like its operator
        for c in &ch {
            if let Some(op) = ast::BinOp::from_kind(c.kind()) {
                if c.text().as_str() != op.as_str() && c.children().len() == 0 {
                    out.push(format!("PF22: operator token {:?} is spelled {:?}, not {:?}", c.kind(), c.text(), op.as_str()));
                }
            }
        }
        // PF21: behind the left operand come comments / blanks, then the operator token(s): `not` only in front of `in`
        let triv = |c: &&SyntaxNode| matches!(c.kind(), K::Space | K::LineComment | K::BlockComment);
        let p = ch.iter().skip(1).position(|c| !triv(&c)).map(|i| i + 1);
        let is_not_in = n.cast::<ast::Binary>().is_some_and(|b| b.op() == ast::BinOp::NotIn);
        let ok = p.is_some_and(|p| if is_not_in { ch[p].kind() == K::Not } else { ast::BinOp::from_kind(ch[p].kind()).is_some() });
        if !ok {
            out.push(format!("PF21: Binary with children {:?}", ch.iter().map(|c| c.kind()).collect::<Vec<_>>()));
        }
        if !is_not_in {
            // every non-trivia child behind the operator is an expression (the right operand)
            if let Some(p) = p {
                for c in &ch[p + 1..] {
                    if !triv(&c) && !c.is::<ast::Expr>() {
                        out.push(format!("PF21: {:?} behind the operator of a Binary", c.kind()));
                    }
                }
            }
        }
    }
    // PF23: a Parenthesized node has exactly one child besides parentheses, blanks and comments; pattern() returns it
    if k == K::Parenthesized {
        let body: Vec<_> = ch.iter().filter(|c| !matches!(c.kind(), K::LeftParen | K::RightParen | K::Space | K::LineComment | K::BlockComment)).collect();
        let ok = body.len() == 1 && n.cast::<ast::Parenthesized>().is_some_and(|p| p.pattern().to_untyped().span() == body[0].span());
        if !ok {
            out.push(format!("PF23: Parenthesized with children {:?}", ch.iter().map(|c| c.kind()).collect::<Vec<_>>()));
        }
    }
    // PF13
    if matches!(k, K::Math | K::Markup) {
        for c in &ch {
            if !is_expr(c) && grammar_gen::is_inner_kind(c.kind()) {
                out.push(format!("PF13: inner non-expression {:?} below {k:?}", c.kind()));
            }
        }
    }
    let _ = parent;
    for c in ch {
        check_facts(c, Some(n), in_raw || k == K::Raw, false, out);
    }
}

fn main() -> ExitCode {
    let args: Vec<String> = env::args().skip(1).collect();
    if args.is_empty() {
        eprintln!("usage: vp-replay <PROP> [--widths a,b] [--tabs a,b] [--reorder] [--max N] <file>...");
        return ExitCode::from(2);
    }
    let prop = args[0].clone();
    if prop == "FACTS" {
        let mut bad = 0usize;
        let mut seen = std::collections::BTreeMap::<String, usize>::new();
        for f in &args[1..] {
            let Ok(src) = fs::read_to_string(f) else { continue };
            // the facts are about error-free trees of inputs AND of outputs
            let mut texts = vec![src.clone()];
            if let Ok(o) = Typstyle::new(cfg(40, 2, false)).format_content(src.as_str()) {
                texts.push(o);
            }
            for t in texts {
                let root = parse(&t);
                if root.erroneous() {
                    continue;
                }
                let mut out = vec![];
                check_facts(&root, None, false, true, &mut out);
                for o in out {
                    let key = o.split(':').next().unwrap_or("").to_string();
                    if key != "PF2-raw" {
                        if *seen.get(&o).unwrap_or(&0) == 0 {
                            println!("{{\"fact\":{:?},\"file\":{:?}}}", o, f);
                        }
                        bad += 1;
                    }
                    *seen.entry(o).or_insert(0) += 1;
                }
            }
        }
        let raw = seen.iter().filter(|(k, _)| k.starts_with("PF2-raw")).map(|(_, v)| *v).sum::<usize>();
        eprintln!("facts checked on {} files: {} violations, {} raw lines starting with `//` (known exclusion)", args.len() - 1, bad, raw);
        return if bad > 0 { ExitCode::from(1) } else { ExitCode::SUCCESS };
    }
    if prop == "FORMAT" {
        // vp-replay FORMAT <width> <tab> <reorder:0|1> <file>: the library's answer, for the CLI scenarios (C14-C16)
        let (w, t, r) = (args[1].parse().unwrap_or(80), args[2].parse().unwrap_or(2), args[3] == "1");
        let src = fs::read_to_string(&args[4]).unwrap_or_default();
        return match Typstyle::new(cfg(w, t, r)).format_content(src.as_str()) {
            Ok(o) => {
                print!("{o}");
                ExitCode::SUCCESS
            }
            Err(_) => ExitCode::from(3),
        };
    }
    let mut widths = vec![0usize, 20, 40, 80, 120];
    let mut tabs = vec![2usize, 4];
    let mut reorder = vec![false];
    let mut max = 400usize;
    let mut files = vec![];
    let mut i = 1;
    while i < args.len() {
        match args[i].as_str() {
            "--widths" => {
                widths = args[i + 1].split(',').filter_map(|x| x.parse().ok()).collect();
                i += 1;
            }
            "--tabs" => {
                tabs = args[i + 1].split(',').filter_map(|x| x.parse().ok()).collect();
                i += 1;
            }
            "--reorder" => reorder = vec![false, true],
            "--max" => {
                max = args[i + 1].parse().unwrap_or(400);
                i += 1;
            }
            f => files.push(f.to_string()),
        }
        i += 1;
    }
    if prop == "C19" {
        reorder = vec![false, true];
    }
    if prop == "C12" {
        widths = vec![10000];
        tabs = vec![0];
    }
    panic::set_hook(Box::new(|_| {}));
    let mut failed = false;
    for f in &files {
        let Ok(src) = fs::read_to_string(f) else { continue };
        'cfgs: for &w in &widths {
            for &t in &tabs {
                for &r in &reorder {
                    if let Some(why) = check_one(&prop, &src, w, t, r, max) {
                        println!(
                            "{{\"property\":\"{}\",\"file\":{:?},\"width\":{},\"tab\":{},\"reorder\":{},\"why\":{:?}}}",
                            prop, f, w, t, r, why
                        );
                        failed = true;
                        break 'cfgs;
                    }
                }
            }
        }
    }
    if failed {
        ExitCode::from(1)
    } else {
        ExitCode::SUCCESS
    }
}
