// ---- shims/vpiter.rs : TRUSTED model of the finite iterators handed out by typst-syntax / std adapters ----
// `VpIter<T>` iterates over a known finite sequence `rest()`.  The adapter methods the repository uses are inherent
// methods with exact contracts (inherent methods win over `Iterator`'s provided methods, which Verus cannot specify generically).
#[verifier::external_body]
#[verifier::reject_recursive_types(T)]
pub struct VpIter<T> { _p: core::marker::PhantomData<T> }
impl<T> Iterator for VpIter<T> {
    type Item = T;
    #[verifier::external_body]
    fn next(&mut self) -> (r: Option<T>) { unimplemented!() }
}
impl<T> vstd::std_specs::iter::IteratorSpecImpl for VpIter<T> {
    open spec fn obeys_prophetic_iter_laws(&self) -> bool { true }
    open spec fn remaining(&self) -> Seq<T> { self.rest() }
    open spec fn will_return_none(&self) -> bool { true }
    open spec fn decrease(&self) -> Option<nat> { Some(self.rest().len()) }
    uninterp spec fn peek(&self, i: int) -> Option<T>;
}
pub open spec fn first_index_where<T>(s: Seq<T>, p: spec_fn(T) -> bool) -> int decreases s.len() {
    if s.len() == 0 { 0 } else if p(s[0]) { 0 } else { 1 + first_index_where(s.subrange(1, s.len() as int), p) }
}
impl<T> VpIter<T> {
    pub uninterp spec fn rest(&self) -> Seq<T>;
    #[verifier::external_body]
    pub fn len(&self) -> (r: usize) ensures r == self.rest().len() { unimplemented!() }
    #[verifier::external_body]
    pub fn count(self) -> (r: usize) ensures r == self.rest().len() { unimplemented!() }
    #[verifier::external_body]
    pub fn last(self) -> (r: Option<T>)
        ensures self.rest().len() == 0 ==> r is None, self.rest().len() > 0 ==> r == Some(self.rest().last()) { unimplemented!() }
    #[verifier::external_body]
    pub fn nth_back(&mut self, n: usize) -> (r: Option<T>)
        ensures n >= old(self).rest().len() ==> r is None,
                n < old(self).rest().len() ==> r == Some(old(self).rest()[old(self).rest().len() - 1 - n]) { unimplemented!() }
    #[verifier::external_body]
    pub fn any<F: FnMut(T) -> bool>(&mut self, f: F) -> (r: bool)
        requires forall|x: T| f.requires((x,)),
        // (a closure's `ensures` only constrains results that occurred, so both outcomes are stated through occurred calls)
        ensures
            r ==> (exists|k: int| 0 <= k < old(self).rest().len() && f.ensures((#[trigger] old(self).rest()[k],), true)),
            !r ==> (forall|k: int| 0 <= k < old(self).rest().len() ==> f.ensures((#[trigger] old(self).rest()[k],), false)),
    { unimplemented!() }
    /// `position(p)`: index of the first element satisfying p
    #[verifier::external_body]
    pub fn position<F: FnMut(T) -> bool>(&mut self, f: F) -> (r: Option<usize>)
        requires forall|x: T| f.requires((x,)),
        ensures
            r matches Some(i) ==> i < old(self).rest().len() && f.ensures((old(self).rest()[i as int],), true)
                && (forall|k: int| 0 <= k < i ==> f.ensures((#[trigger] old(self).rest()[k],), false)),
            r is None ==> (forall|k: int| 0 <= k < old(self).rest().len() ==> f.ensures((#[trigger] old(self).rest()[k],), false)),
    { unimplemented!() }
    /// `rposition(p)`: index of the last element satisfying p
    #[verifier::external_body]
    pub fn rposition<F: FnMut(T) -> bool>(&mut self, f: F) -> (r: Option<usize>)
        requires forall|x: T| f.requires((x,)),
        ensures
            r matches Some(i) ==> i < old(self).rest().len() && f.ensures((old(self).rest()[i as int],), true)
                && (forall|k: int| i < k < old(self).rest().len() ==> f.ensures((#[trigger] old(self).rest()[k],), false)),
            r is None ==> (forall|k: int| 0 <= k < old(self).rest().len() ==> f.ensures((#[trigger] old(self).rest()[k],), false)),
    { unimplemented!() }
    #[verifier::external_body]
    pub fn all<F: FnMut(T) -> bool>(&mut self, f: F) -> (r: bool)
        requires forall|x: T| f.requires((x,)),
        ensures
            r ==> (forall|k: int| 0 <= k < old(self).rest().len() ==> f.ensures((#[trigger] old(self).rest()[k],), true)),
            !r ==> (exists|k: int| 0 <= k < old(self).rest().len() && f.ensures((#[trigger] old(self).rest()[k],), false)),
    { unimplemented!() }
    /// `take(n)`
    #[verifier::external_body]
    pub fn take(self, n: usize) -> (r: VpIter<T>)
        ensures r.rest() == (if n <= self.rest().len() { self.rest().subrange(0, n as int) } else { self.rest() }) { unimplemented!() }
    /// `take_while(p)`: the longest prefix whose elements all satisfy p
    #[verifier::external_body]
    pub fn take_while<P: FnMut(&T) -> bool>(self, p: P) -> (r: VpIter<T>)
        requires forall|x: &T| p.requires((x,)),
        ensures
            r.rest().is_prefix_of(self.rest()),
            forall|k: int| 0 <= k < r.rest().len() ==> p.ensures((&#[trigger] r.rest()[k],), true),
            r.rest().len() < self.rest().len() ==> p.ensures((&self.rest()[r.rest().len() as int],), false),
    { unimplemented!() }
    /// `skip_while(p)`: drops the longest prefix whose elements all satisfy p
    #[verifier::external_body]
    pub fn skip_while<P: FnMut(&T) -> bool>(self, p: P) -> (r: VpIter<T>)
        requires forall|x: &T| p.requires((x,)),
        ensures
            r.rest().is_suffix_of(self.rest()),
            forall|k: int| 0 <= k < self.rest().len() - r.rest().len() ==> p.ensures((&#[trigger] self.rest()[k],), true),
            r.rest().len() > 0 ==> p.ensures((&r.rest()[0],), false),
    { unimplemented!() }
    /// `filter_map(f)`: the `Some` results in order; the result length is bounded by the input length
    #[verifier::external_body]
    pub fn filter_map<U, F: FnMut(T) -> Option<U>>(self, f: F) -> (r: VpIter<U>)
        requires forall|k: int| 0 <= k < self.rest().len() ==> f.requires((#[trigger] self.rest()[k],)),
        ensures
            r.rest().len() <= self.rest().len(),
            forall|k: int| 0 <= k < r.rest().len() ==> (exists|j: int| 0 <= j < self.rest().len() && f.ensures((self.rest()[j],), Some(#[trigger] r.rest()[k]))),
            (forall|j: int| 0 <= j < self.rest().len() ==> f.ensures((#[trigger] self.rest()[j],), Option::None)) ==> r.rest().len() == 0,
    { unimplemented!() }
    #[verifier::external_body]
    pub fn filter<P: FnMut(&T) -> bool>(self, p: P) -> (r: VpIter<T>)
        requires forall|x: &T| p.requires((x,)),
        ensures
            r.rest().len() <= self.rest().len(),
            forall|k: int| 0 <= k < r.rest().len() ==> p.ensures((&#[trigger] r.rest()[k],), true) && self.rest().contains(r.rest()[k]),
    { unimplemented!() }
    #[verifier::external_body]
    pub fn collect_vec(self) -> (r: Vec<T>) ensures r@ == self.rest() { unimplemented!() }
}

/// rule R9: `v.into_iter().enumerate()` is rewritten to `vp_enumerate(v)`
#[verifier::external_body]
pub fn vp_enumerate<T>(v: Vec<T>) -> (r: VpIter<(usize, T)>)
    ensures r.rest().len() == v@.len(), forall|k: int| 0 <= k < v@.len() ==> (#[trigger] r.rest()[k]).0 == k && r.rest()[k].1 == v@[k],
{ unimplemented!() }
/// itertools::Position as yielded by `with_position()`
pub mod itertools {
    use super::*;
    #[derive(Clone, Copy, PartialEq, Eq)]
    pub enum Position { First, Middle, Last, Only }
}
pub open spec fn position_of(k: int, n: int) -> itertools::Position {
    if n == 1 { itertools::Position::Only } else if k == 0 { itertools::Position::First } else if k == n - 1 { itertools::Position::Last } else { itertools::Position::Middle }
}
/// rule R9: `v.into_iter().with_position()` (itertools) is rewritten to `vp_with_position(v)`
#[verifier::external_body]
pub fn vp_with_position<T>(v: Vec<T>) -> (r: VpIter<(itertools::Position, T)>)
    ensures r.rest().len() == v@.len(), forall|k: int| 0 <= k < v@.len() ==> (#[trigger] r.rest()[k]).0 == position_of(k, v@.len() as int) && r.rest()[k].1 == v@[k],
{ unimplemented!() }
/// rule R9: `v.into_iter()` handed to a generic `impl Iterator` parameter
#[verifier::external_body]
pub fn vp_vec_into_iter<T>(v: Vec<T>) -> (r: VpIter<T>) ensures r.rest() == v@ { unimplemented!() }
impl<T> VpIter<T> {
    #[verifier::external_body]
    pub fn enumerate(self) -> (r: VpIter<(usize, T)>)
        ensures r.rest().len() == self.rest().len(), forall|k: int| 0 <= k < self.rest().len() ==> (#[trigger] r.rest()[k]).0 == k && r.rest()[k].1 == self.rest()[k],
    { unimplemented!() }
}
/// rule R9: `v.extend(iter)` is rewritten to `vp_vec_extend(&mut v, iter)`
#[verifier::external_body]
pub fn vp_vec_extend<T>(v: &mut Vec<T>, it: VpIter<T>) ensures final(v)@ == old(v)@ + it.rest() { unimplemented!() }
/// rule R9: `v.iter().skip(1).map(f).sum::<usize>()` -- the sum of the byte lengths of disjoint parts of one source text; TRUSTED not
/// to overflow (the parts lie in one allocation of at most isize::MAX bytes); its value is not specified
#[verifier::external_body]
pub fn vp_sum_lengths_skip1<'b, T, F: Fn(&'b T) -> usize>(v: &'b Vec<T>, f: F) -> (r: usize)
    requires forall|k: int| 0 <= k < v@.len() ==> f.requires((&#[trigger] v@[k],)),
    ensures r <= isize::MAX as usize,
{ unimplemented!() }
/// rule R9: `it.collect_vec()` (itertools) on any finite iterator
#[verifier::external_body]
pub fn vp_collect_vec<T, I: Iterator<Item = T>>(it: I) -> (r: Vec<T>)
    requires it.obeys_prophetic_iter_laws(),
    ensures r@ == it.remaining(),
{ unimplemented!() }
/// rule R9: `v.reverse()`
#[verifier::external_body]
pub fn vp_vec_reverse<T>(v: &mut Vec<T>) ensures final(v)@ == old(v)@.reverse() { unimplemented!() }
/// rule R9: `LIST.contains(&s)` on a constant list of string literals
#[verifier::external_body]
pub fn vp_str_list_contains<const N: usize>(list: &[&str; N], s: &str) -> (r: bool)
    ensures r == (exists|k: int| 0 <= k < N && (#[trigger] list@[k])@ == s@),
{ unimplemented!() }
/// rule R9: `for x in &v`
#[verifier::external_body]
pub fn vp_vec_iter<'b, T>(v: &'b Vec<T>) -> (r: VpIter<&'b T>)
    ensures r.rest().len() == v@.len(), forall|k: int| 0 <= k < v@.len() ==> *(#[trigger] r.rest()[k]) == v@[k],
{ unimplemented!() }
impl<T> VpIter<T> {
    #[verifier::external_body]
    pub fn skip(self, n: usize) -> (r: VpIter<T>)
        ensures r.rest() == (if n <= self.rest().len() { self.rest().subrange(n as int, self.rest().len() as int) } else { Seq::empty() }) { unimplemented!() }
    /// `map(f)`: element-wise; each result is a possible result of `f` on the corresponding element
    #[verifier::external_body]
    pub fn map<U, F: FnMut(T) -> U>(self, f: F) -> (r: VpIter<U>)
        requires forall|k: int| 0 <= k < self.rest().len() ==> f.requires((#[trigger] self.rest()[k],)),
        ensures r.rest().len() == self.rest().len(), forall|k: int| 0 <= k < r.rest().len() ==> f.ensures((self.rest()[k],), #[trigger] r.rest()[k]),
    { unimplemented!() }
}
impl VpIter<usize> {
    #[verifier::external_body]
    pub fn min(self) -> (r: Option<usize>)
        ensures
            self.rest().len() == 0 ==> r is None,
            self.rest().len() > 0 ==> (r matches Some(m) && self.rest().contains(m) && forall|k: int| 0 <= k < self.rest().len() ==> m <= #[trigger] self.rest()[k]),
    { unimplemented!() }
    #[verifier::external_body]
    pub fn sum(self) -> (r: usize) { unimplemented!() }
}
/// `&'a [SyntaxNode]` as handed out by `children().as_slice()`: modelled, like `VpIter<&SyntaxNode>`, as a finite sequence of
/// node references.  Range indexing is rewritten (rule R6) to `vp_range`, which carries Rust's panic condition.
#[verifier::external_body]
pub struct VpSlice<'a> { _p: core::marker::PhantomData<&'a SyntaxNode> }
impl<'a> Clone for VpSlice<'a> {
    #[verifier::external_body]
    fn clone(&self) -> (r: Self) ensures r == *self { unimplemented!() }
}
impl<'a> Copy for VpSlice<'a> {}
impl<'a> VpSlice<'a> {
    pub uninterp spec fn view(&self) -> Seq<&'a SyntaxNode>;
    #[verifier::external_body]
    pub fn len(self) -> (r: usize) ensures r == self@.len() { unimplemented!() }
    #[verifier::external_body]
    pub fn is_empty(self) -> (r: bool) ensures r == (self@.len() == 0) { unimplemented!() }
    #[verifier::external_body]
    pub fn split_first(self) -> (r: Option<(&'a SyntaxNode, VpSlice<'a>)>)
        ensures self@.len() == 0 ==> r is None,
                self@.len() > 0 ==> (r matches Some(p) && p.0 == self@[0] && p.1@ == self@.subrange(1, self@.len() as int)),
    { unimplemented!() }
    #[verifier::external_body]
    pub fn split_last(self) -> (r: Option<(&'a SyntaxNode, VpSlice<'a>)>)
        ensures self@.len() == 0 ==> r is None,
                self@.len() > 0 ==> (r matches Some(p) && p.0 == self@.last() && p.1@ == self@.drop_last()),
    { unimplemented!() }
    #[verifier::external_body]
    pub fn iter(self) -> (r: VpIter<&'a SyntaxNode>) ensures r.rest() == self@ { unimplemented!() }
    #[verifier::external_body]
    pub fn get(self, i: usize) -> (r: Option<&'a SyntaxNode>)
        ensures i < self@.len() ==> r == Some(self@[i as int]), i >= self@.len() ==> r is None { unimplemented!() }
    /// `s[i]` (rule R6; panics unless i < len)
    #[verifier::external_body]
    pub fn vp_at(self, i: usize) -> (r: &'a SyntaxNode) requires i < self@.len() ensures r == self@[i as int] { unimplemented!() }
    #[verifier::external_body]
    pub fn last(self) -> (r: Option<&'a SyntaxNode>)
        ensures self@.len() == 0 ==> r is None, self@.len() > 0 ==> r == Some(self@.last()) { unimplemented!() }
    /// `s.get(i..=j).unwrap_or_default()`: the inclusive range, or the empty slice when it is out of bounds or i > j + 1
    #[verifier::external_body]
    pub fn vp_get_incl_or_empty(self, i: usize, j: usize) -> (r: VpSlice<'a>)
        ensures r@ == (if j < self@.len() && i <= j + 1 { self@.subrange(i as int, j + 1) } else { Seq::empty() }),
    { unimplemented!() }
    /// `&s[start..]`
    #[verifier::external_body]
    pub fn vp_range_from(self, start: usize) -> (r: VpSlice<'a>)
        requires start <= self@.len(),
        ensures r@ == self@.subrange(start as int, self@.len() as int),
    { unimplemented!() }
    /// `&s[..end]`
    #[verifier::external_body]
    pub fn vp_range_to(self, end: usize) -> (r: VpSlice<'a>)
        requires end <= self@.len(),
        ensures r@ == self@.subrange(0, end as int),
    { unimplemented!() }
    /// `&s[start..end]` (panics unless start <= end <= len)
    #[verifier::external_body]
    pub fn vp_range(self, start: usize, end: usize) -> (r: VpSlice<'a>)
        requires start <= end <= self@.len(),
        ensures r@ == self@.subrange(start as int, end as int),
    { unimplemented!() }
}
impl<'a> VpIter<&'a SyntaxNode> {
    #[verifier::external_body]
    pub fn as_slice(&self) -> (r: VpSlice<'a>) ensures r@ == self.rest() { unimplemented!() }
}
