// ---- shims/std_str.rs : TRUSTED contracts for std `str` / `String` functions vstd does not cover ----
#[verifier::external_type_specification]
#[verifier::external_body]
pub struct ExLines<'a>(core::str::Lines<'a>);

/// `str::lines`: the segments between line feeds (a trailing `\r` of a segment removed); no segment
/// contains `\n`; a non-empty string has at least one segment.
pub uninterp spec fn lines_spec<'a>(s: &'a str) -> Seq<&'a str>;

pub assume_specification<'a>[ str::lines ](s: &'a str) -> (r: core::str::Lines<'a>)
    ensures
        r.remaining() == lines_spec(s),
        r.obeys_prophetic_iter_laws(),
        r.will_return_none(),
        r.decrease() is Some,
        s@.len() > 0 ==> lines_spec(s).len() > 0,
        forall|i: int| 0 <= i < lines_spec(s).len() ==> no_lf(#[trigger] lines_spec(s)[i]@);

pub assume_specification<'a>[ str::trim_end ](s: &'a str) -> (out: &'a str)
    ensures
        out@.is_prefix_of(s@),
        out@.len() > 0 ==> !is_ws(out@.last()),
        forall|i: int| out@.len() <= i < s@.len() ==> is_ws(#[trigger] s@[i]),
        out.spec_bytes() =~= s.spec_bytes().subrange(0, out.spec_bytes().len() as int),
        out.spec_bytes().len() <= s.spec_bytes().len(),
        bnd(s.spec_bytes(), out.spec_bytes().len() as int),     // a prefix that is a str ends on a boundary
        out@ == chars_of(out.spec_bytes());

pub assume_specification<'a>[ str::trim_start ](s: &'a str) -> (out: &'a str)
    ensures
        out@.is_suffix_of(s@),
        out@.len() > 0 ==> !is_ws(out@[0]),
        forall|i: int| 0 <= i < s@.len() - out@.len() ==> is_ws(#[trigger] s@[i]),
        out.spec_bytes().len() <= s.spec_bytes().len(),
        out.spec_bytes() =~= s.spec_bytes().subrange(s.spec_bytes().len() - out.spec_bytes().len(), s.spec_bytes().len() as int),
        bnd(s.spec_bytes(), s.spec_bytes().len() - out.spec_bytes().len()),   // a suffix that is a str starts on a boundary
        out@ == chars_of(out.spec_bytes());

pub assume_specification[ String::with_capacity ](n: usize) -> (r: String)
    ensures r@ == Seq::<char>::empty();

/// Rule R6: `&s[a..b]` is rewritten to this call; the contract carries Rust's panic conditions.
#[verifier::external_body]
pub fn vp_str_slice<'a>(s: &'a str, a: usize, b: usize) -> (t: &'a str)
    requires
        a <= b,                                  //@tag C05 C13 slice.order
        b <= s.spec_bytes().len(),               //@tag C05 C13 slice.len
        bnd(s.spec_bytes(), a as int),           //@tag C05 C13 slice.start_boundary
        bnd(s.spec_bytes(), b as int),           //@tag C05 C13 slice.end_boundary
    ensures
        t.spec_bytes() =~= s.spec_bytes().subrange(a as int, b as int),
        t@ == chars_of(t.spec_bytes()),
{ unimplemented!() }

/// `s.rfind('\n')` (rule R6b: method call on a `char` pattern rewritten to this shim).
#[verifier::external_body]
pub fn vp_str_rfind_lf(s: &str) -> (r: Option<usize>)
    ensures
        r matches Some(p) ==> p < s.spec_bytes().len() && s.spec_bytes()[p as int] == 0x0Au8
            && bnd(s.spec_bytes(), p as int)
            && bnd(s.spec_bytes(), p + 1),     // `\n` is one byte long, so the next offset is a boundary
{ unimplemented!() }

/// `s.chars().take_while(|&c| c == ' ').count()` (rule R9: iterator-adapter expression abstracted).
#[verifier::external_body]
pub fn vp_count_leading_spaces(s: &str) -> (r: usize)
    ensures r <= s.spec_bytes().len(),
{ unimplemented!() }

#[verifier::external_body]
pub fn vp_is_char_boundary(s: &str, i: usize) -> (r: bool)
    ensures r == bnd(s.spec_bytes(), i as int) && (r ==> i <= s.spec_bytes().len()),
{ unimplemented!() }

/// The character view is the UTF-8 decoding of the bytes.
#[verifier::external_body]
pub proof fn axiom_view_of_bytes(s: &str)
    ensures s@ == chars_of(s.spec_bytes()),
{}

/// A `str` has at most `usize::MAX` bytes and no more characters than bytes.
#[verifier::external_body]
pub proof fn axiom_str_len_bound(s: &str)
    ensures s@.len() <= s.spec_bytes().len() <= usize::MAX,
{}

/// `haystack.contains(needle)` for a `&str` needle (rule R6b: method call on a generic `Pattern` rewritten to this shim)
pub open spec fn contains_substr(h: Seq<char>, n: Seq<char>) -> bool {
    exists|i: int| 0 <= i && i + n.len() <= h.len() && #[trigger] h.subrange(i, i + n.len()) =~= n
}
#[verifier::external_body]
pub fn vp_str_contains_str(h: &str, n: &str) -> (r: bool)
    ensures r == contains_substr(h@, n@),
{ unimplemented!() }

// ---- generic `Pattern` methods: deterministic but otherwise unspecified results (sound abstraction) ----
pub uninterp spec fn str_contains_pat<P>(h: Seq<char>, p: P) -> bool;
pub uninterp spec fn str_replace_pat<P>(h: Seq<char>, p: P, to: Seq<char>) -> Seq<char>;
pub uninterp spec fn str_starts_with_pat<P>(h: Seq<char>, p: P) -> bool;
pub uninterp spec fn str_ends_with_pat<P>(h: Seq<char>, p: P) -> bool;
pub assume_specification<P: core::str::pattern::Pattern>[ str::contains::<P> ](s: &str, p: P) -> (r: bool)
    ensures r == str_contains_pat(s@, p);
pub assume_specification<P: core::str::pattern::Pattern>[ str::replace::<P> ](s: &str, p: P, to: &str) -> (r: String)
    ensures r@ == str_replace_pat(s@, p, to@);
pub assume_specification<P: core::str::pattern::Pattern>[ str::starts_with::<P> ](s: &str, p: P) -> (r: bool)
    ensures r == str_starts_with_pat(s@, p);
pub assume_specification<P: core::str::pattern::Pattern>[ str::ends_with::<P> ](s: &str, p: P) -> (r: bool)
    where for<'a> P::Searcher<'a>: core::str::pattern::ReverseSearcher<'a>,
    ensures r == str_ends_with_pat(s@, p);
pub assume_specification[ str::repeat ](s: &str, n: usize) -> (r: String)
    ensures r@.len() == s@.len() * n, forall|i: int| 0 <= i < r@.len() ==> #[trigger] r@[i] == s@[i % (s@.len() as int)];

/// rule R9: `s.chars().position(pred)`: index (in characters) of the first character for which `pred` returned true
#[verifier::external_body]
pub fn vp_chars_position<F: FnMut(char) -> bool>(s: &str, pred: F) -> (r: Option<usize>)
    requires forall|c: char| pred.requires((c,)),
    ensures
        r matches Some(k) ==> k < s@.len() && pred.ensures((s@[k as int],), true) && forall|i: int| 0 <= i < k ==> pred.ensures((#[trigger] s@[i],), false),
        r is None ==> forall|i: int| 0 <= i < s@.len() ==> pred.ensures((#[trigger] s@[i],), false),
{ unimplemented!() }
/// UTF-8: a prefix of k ASCII characters occupies exactly k bytes, so byte offset k is a character boundary
#[verifier::external_body]
pub proof fn axiom_ascii_prefix(s: &str, k: int)
    requires 0 <= k <= s@.len(), forall|i: int| 0 <= i < k ==> (#[trigger] s@[i]) == ' ',
    ensures k <= s.spec_bytes().len(), bnd(s.spec_bytes(), k),
        chars_of(s.spec_bytes().subrange(k, s.spec_bytes().len() as int)) =~= s@.subrange(k, s@.len() as int),
        k == s@.len() ==> s.spec_bytes().len() == k,
{}

/// `str::trim_ascii_end` / `trim_ascii_start`: only ASCII white space (HT, LF, FF, CR, SP) is removed
pub open spec fn is_ascii_ws(c: char) -> bool { c == ' ' || c == '\t' || c == '\n' || c == '\x0c' || c == '\r' }
pub assume_specification<'a>[ str::trim_ascii_end ](s: &'a str) -> (out: &'a str)
    ensures
        out@.is_prefix_of(s@),
        out@.len() > 0 ==> !is_ascii_ws(out@.last()),
        forall|i: int| out@.len() <= i < s@.len() ==> is_ascii_ws(#[trigger] s@[i]),
        out.spec_bytes() =~= s.spec_bytes().subrange(0, out.spec_bytes().len() as int),
        out.spec_bytes().len() <= s.spec_bytes().len(),
        bnd(s.spec_bytes(), out.spec_bytes().len() as int),
        out@ == chars_of(out.spec_bytes());
pub assume_specification<'a>[ str::trim_ascii_start ](s: &'a str) -> (out: &'a str)
    ensures
        out@.is_suffix_of(s@),
        out@.len() > 0 ==> !is_ascii_ws(out@[0]),
        forall|i: int| 0 <= i < s@.len() - out@.len() ==> is_ascii_ws(#[trigger] s@[i]),
        out.spec_bytes().len() <= s.spec_bytes().len(),
        out.spec_bytes() =~= s.spec_bytes().subrange(s.spec_bytes().len() - out.spec_bytes().len(), s.spec_bytes().len() as int),
        bnd(s.spec_bytes(), s.spec_bytes().len() - out.spec_bytes().len()),
        out@ == chars_of(out.spec_bytes());
