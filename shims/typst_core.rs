// ---- shims/typst_core.rs : TRUSTED model of typst_syntax::{SyntaxNode, Span, Source, LinkedNode} and ecow::EcoString ----
// The tree is opaque: kind, text, children, span, erroneous-ness are uninterpreted functions of the node;
// the exec accessors return exactly those.  Nothing about the *parser* is assumed here (see prelude/treefacts.rs).

pub struct EcoString { _s: String }
impl EcoString {
    pub uninterp spec fn view(&self) -> Seq<char>;
    #[verifier::external_body]
    pub fn as_str(&self) -> (r: &str) ensures r@ == self@ { unimplemented!() }
    #[verifier::external_body]
    pub fn to_string(&self) -> (r: String) ensures r@ == self@ { unimplemented!() }
    /// byte length (a string never exceeds isize::MAX bytes)
    #[verifier::external_body]
    pub fn len(&self) -> (r: usize) ensures r <= isize::MAX as usize { unimplemented!() }
}
impl core::ops::Deref for EcoString {
    type Target = str;
    #[verifier::external_body]
    fn deref(&self) -> (r: &str) ensures r@ == self@ { unimplemented!() }
}

// comparisons with string literals (`node.text() == " "`, `*text == "x"`)
impl<'a, 'b> PartialEq<&'a str> for &'b EcoString {
    #[verifier::external_body]
    fn eq(&self, other: &&'a str) -> (r: bool) ensures r == (self@ == other@) { unimplemented!() }
    #[verifier::external_body]
    fn ne(&self, other: &&'a str) -> (r: bool) ensures r == (self@ != other@) { unimplemented!() }
}
impl<'a> PartialEq<&'a str> for EcoString {
    #[verifier::external_body]
    fn eq(&self, other: &&'a str) -> (r: bool) ensures r == (self@ == other@) { unimplemented!() }
    #[verifier::external_body]
    fn ne(&self, other: &&'a str) -> (r: bool) ensures r == (self@ != other@) { unimplemented!() }
}

#[derive(Clone, Copy, PartialEq, Eq)]
pub struct Span { pub id: u64 }

#[verifier::external_body]
pub struct SyntaxNode { _p: () }

impl SyntaxNode {
    pub uninterp spec fn kind_s(&self) -> SyntaxKind;
    /// text of a leaf (empty for inner nodes)
    pub uninterp spec fn text_s(&self) -> Seq<char>;
    pub uninterp spec fn children_s<'a>(&'a self) -> Seq<&'a SyntaxNode>;
    pub uninterp spec fn span_s(&self) -> Span;
    pub uninterp spec fn erroneous_s(&self) -> bool;
    /// full source text of the subtree (`clone().into_text()`)
    pub uninterp spec fn full_text_s(&self) -> Seq<char>;

    #[verifier::external_body]
    pub fn kind(&self) -> (r: SyntaxKind) ensures r == self.kind_s() { unimplemented!() }
    #[verifier::external_body]
    pub fn text(&self) -> (r: &EcoString) ensures r@ == self.text_s() { unimplemented!() }
    /// (the real return type is `std::slice::Iter<'_, SyntaxNode>`; `VpIter` models it, see shims/vpiter.rs)
    #[verifier::external_body]
    pub fn children(&self) -> (r: VpIter<&SyntaxNode>)
        ensures r.rest() == self.children_s(),
    { unimplemented!() }
    #[verifier::external_body]
    pub fn span(&self) -> (r: Span) ensures r == self.span_s() { unimplemented!() }
    #[verifier::external_body]
    pub fn erroneous(&self) -> (r: bool) ensures r == self.erroneous_s() { unimplemented!() }
    /// rule R10: `node.clone().into_text()` is rewritten to `node.vp_into_text()` (cloning a node is not modelled)
    #[verifier::external_body]
    pub fn vp_into_text(&self) -> (r: EcoString) ensures r@ == self.full_text_s() { unimplemented!() }
    pub fn cast<'a, T: AstNode<'a>>(&'a self) -> (r: Option<T>)
        ensures r is Some <==> T::castable(self), r matches Some(t) ==> t.node() == self && t.wf(),
    { T::from_untyped(self) }
    pub fn is<'a, T: AstNode<'a>>(&'a self) -> (r: bool)
        ensures r == T::castable(self),
    { self.cast::<T>().is_some() }
}
