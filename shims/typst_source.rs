// ---- shims/typst_source.rs : TRUSTED model of typst_syntax::{Source, LinkedNode} and of rendering ----
#[verifier::external_body] pub struct Source { _p: () }
impl Source {
    pub uninterp spec fn text_s(&self) -> &str;
    pub uninterp spec fn root_s(&self) -> &SyntaxNode;
    /// PARSER FACT (typst_syntax::parse): the root of a `Source` is a `Markup` node
    #[verifier::external_body]
    pub fn root(&self) -> (r: &SyntaxNode) ensures r == self.root_s(), r.kind_s() == SyntaxKind::Markup { unimplemented!() }
    #[verifier::external_body]
    pub fn text(&self) -> (r: &str) ensures r == self.text_s() { unimplemented!() }
    #[verifier::external_body]
    pub fn len_bytes(&self) -> (r: usize) ensures r == self.text_s().spec_bytes().len() { unimplemented!() }
    /// rule R19: `Source::detached(content.into())` keeps its argument; `impl Into<String>` is modelled by `TextArg`
    #[verifier::external_body]
    pub fn detached<T: TextArg>(text: T) -> (r: Source) ensures r.text_s()@ == text.chars() { unimplemented!() }
    /// `find(span)`: the node with that span, linked (offset known), if the span belongs to this source
    #[verifier::external_body]
    pub fn find(&self, span: Span) -> (r: Option<LinkedNode<'_>>)
        ensures r matches Some(n) ==> n.node_s().span_s() == span && n.in_source(self),
    { unimplemented!() }
}

/// A node together with its byte offset in the source text.
#[verifier::external_body] pub struct LinkedNode<'a> { _p: core::marker::PhantomData<&'a ()> }
impl<'a> LinkedNode<'a> {
    pub uninterp spec fn node_s(&self) -> &'a SyntaxNode;
    pub uninterp spec fn start_s(&self) -> nat;
    pub uninterp spec fn end_s(&self) -> nat;
    /// the node lies within the text of `src` (its range is a range of that text, on character boundaries)
    pub uninterp spec fn in_source(&self, src: &Source) -> bool;
    #[verifier::external_body]
    pub fn new(root: &'a SyntaxNode) -> (r: LinkedNode<'a>) ensures r == Self::root_s(root), r.node_s() == root, r.start_s() == 0 { unimplemented!() }
    #[verifier::external_body]
    pub fn get(&self) -> (r: &'a SyntaxNode) ensures r == self.node_s() { unimplemented!() }
    #[verifier::external_body]
    pub fn kind(&self) -> (r: SyntaxKind) ensures r == self.node_s().kind_s() { unimplemented!() }
    #[verifier::external_body]
    pub fn span(&self) -> (r: Span) ensures r == self.node_s().span_s() { unimplemented!() }
    #[verifier::external_body]
    pub fn erroneous(&self) -> (r: bool) ensures r == self.node_s().erroneous_s() { unimplemented!() }
    #[verifier::external_body]
    pub fn range(&self) -> (r: core::ops::Range<usize>)
        ensures r.start == self.start_s(), r.end == self.end_s(), r.start <= r.end { unimplemented!() }
    pub fn cast<T: AstNode<'a>>(&self) -> (r: Option<T>)
        ensures r is Some <==> T::castable(self.node_s()), r matches Some(t) ==> t.node() == self.node_s() && t.wf(),
    { self.get().cast::<T>() }
    pub fn is<T: AstNode<'a>>(&self) -> (r: bool)
        ensures r == T::castable(self.node_s()),
    { self.get().is::<T>() }
    /// the linked children, in order
    pub uninterp spec fn children_v(&self) -> Seq<LinkedNode<'a>>;
    /// spec-level `LinkedNode::new(root)`
    pub uninterp spec fn root_s(root: &'a SyntaxNode) -> LinkedNode<'a>;
    /// (the real API returns an iterator; a vector has the same `for` semantics)
    #[verifier::external_body]
    pub fn children(&self) -> (r: Vec<LinkedNode<'a>>)
        ensures
            r@ == self.children_v(),
            r@.len() == self.node_s().children_s().len(),
            forall|i: int| 0 <= i < r@.len() ==> (#[trigger] r@[i]).node_s() == self.node_s().children_s()[i],
    { unimplemented!() }
}

/// `doc.pretty(width).to_string()`: the renderer is not modelled; its result is an uninterpreted function of (doc, width)
pub uninterp spec fn render_s(d: DocV, width: int) -> Seq<char>;
#[verifier::external_body] pub struct PrettyFmt { _p: () }
impl<'a> DocBuilder<'a, Arena<'a>> {
    #[verifier::external_body]
    pub fn pretty(&self, width: usize) -> (r: PrettyFmt) ensures r.out_s() == render_s(self@, width as int) { unimplemented!() }
}
impl PrettyFmt {
    pub uninterp spec fn out_s(&self) -> Seq<char>;
    #[verifier::external_body]
    pub fn to_string(&self) -> (r: String) ensures r@ == self.out_s() { unimplemented!() }
}

/// rule R20: `range.clone()` on a `Range<usize>`
#[verifier::external_body]
pub fn vp_range_clone(r: &core::ops::Range<usize>) -> (c: core::ops::Range<usize>) ensures c == *r { unimplemented!() }
