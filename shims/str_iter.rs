// ---- shims/str_iter.rs : TRUSTED; needs std_str.rs and vpiter.rs ----
/// rule R9: `s.lines()` handed to iterator adapters
#[verifier::external_body]
pub fn vp_lines<'a>(s: &'a str) -> (r: VpIter<&'a str>)
    ensures
        r.rest() == lines_spec(s),
        s@.len() > 0 ==> lines_spec(s).len() > 0,
        forall|i: int| 0 <= i < lines_spec(s).len() ==> no_lf(#[trigger] lines_spec(s)[i]@),
{ unimplemented!() }
