// ---- shims/typst_fns.rs : TRUSTED contracts of free functions of typst_syntax ----
#[verifier::external_body]
pub fn is_newline(c: char) -> (r: bool) ensures r == is_typst_newline(c) { unimplemented!() }
