// ---- shims/smallvec.rs : TRUSTED model of smallvec::SmallVec<[T; N]> as a finite sequence (only the operations the repo uses) ----
pub trait VpArray { type Item; }
impl<T, const N: usize> VpArray for [T; N] { type Item = T; }
#[verifier::external_body]
#[verifier::reject_recursive_types(A)]
pub struct SmallVec<A: VpArray> { _p: core::marker::PhantomData<A> }
impl<A: VpArray> View for SmallVec<A> { type V = Seq<A::Item>; uninterp spec fn view(&self) -> Seq<A::Item>; }
impl<A: VpArray> SmallVec<A> {
    #[verifier::external_body]
    pub fn new() -> (r: Self) ensures r@.len() == 0 { unimplemented!() }
    #[verifier::external_body]
    pub fn is_empty(&self) -> (r: bool) ensures r == (self@.len() == 0) { unimplemented!() }
    #[verifier::external_body]
    pub fn len(&self) -> (r: usize) ensures r == self@.len() { unimplemented!() }
    #[verifier::external_body]
    pub fn push(&mut self, x: A::Item) ensures final(self)@ == old(self)@.push(x) { unimplemented!() }
    #[verifier::external_body]
    pub fn pop(&mut self) -> (r: Option<A::Item>)
        ensures old(self)@.len() == 0 ==> r is None && final(self)@ == old(self)@,
                old(self)@.len() > 0 ==> r == Some(old(self)@.last()) && final(self)@ == old(self)@.drop_last(),
    { unimplemented!() }
    #[verifier::external_body]
    pub fn last(&self) -> (r: Option<&A::Item>)
        ensures self@.len() == 0 ==> r is None, self@.len() > 0 ==> (r matches Some(x) && *x == self@.last()),
    { unimplemented!() }
    #[verifier::external_body]
    pub fn iter<'b>(&'b self) -> (r: VpIter<&'b A::Item>)
        ensures r.rest().len() == self@.len(), forall|k: int| 0 <= k < self@.len() ==> *(#[trigger] r.rest()[k]) == self@[k],
            // (instances for the first and the last element, stated so that `find` / `rfind` results can be related to them)
            self@.len() > 0 ==> *(r.rest()[0]) == self@[0] && *(r.rest()[r.rest().len() - 1]) == self@[self@.len() - 1],
    { unimplemented!() }
}
/// rule R9: `for x in small_vec` (by value)
#[verifier::external_body]
pub fn vp_smallvec_into_iter<A: VpArray>(v: SmallVec<A>) -> (r: VpIter<A::Item>) ensures r.rest() == v@ { unimplemented!() }
impl<T> VpIter<T> {
    /// `find(p)`: the first element satisfying p
    #[verifier::external_body]
    pub fn find<P: FnMut(&T) -> bool>(&mut self, p: P) -> (r: Option<T>)
        requires forall|x: &T| p.requires((x,)),
        ensures
            r is None ==> (forall|k: int| 0 <= k < old(self).rest().len() ==> p.ensures((&#[trigger] old(self).rest()[k],), false)),
            r matches Some(x) ==> (exists|k: int| 0 <= k < old(self).rest().len() && x == #[trigger] old(self).rest()[k] && p.ensures((&x,), true)
                && (forall|j: int| 0 <= j < k ==> p.ensures((&#[trigger] old(self).rest()[j],), false))),
    { unimplemented!() }
    /// `rfind(p)`: the last element satisfying p
    #[verifier::external_body]
    pub fn rfind<P: FnMut(&T) -> bool>(&mut self, p: P) -> (r: Option<T>)
        requires forall|x: &T| p.requires((x,)),
        ensures
            r is None ==> (forall|k: int| 0 <= k < old(self).rest().len() ==> p.ensures((&#[trigger] old(self).rest()[k],), false)),
            r matches Some(x) ==> (exists|k: int| 0 <= k < old(self).rest().len() && x == #[trigger] old(self).rest()[k] && p.ensures((&x,), true)
                && (forall|j: int| k < j < old(self).rest().len() ==> p.ensures((&#[trigger] old(self).rest()[j],), false))),
    { unimplemented!() }
}
