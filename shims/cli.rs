// ---- shims/cli.rs : TRUSTED model of the environment of the `typstyle` binary --------------------
// std::fs / stdin / stdout, walkdir, anyhow, clap-parsed arguments and the typstyle_core library entry points.
// There is no mutable world state: effects are guarded by preconditions (what may be written / printed),
// inputs are described by uninterpreted facts produced by the reading shims.

#[verifier::external_body] pub struct PathBuf { _p: () }
#[verifier::external_body] pub struct Path { _p: () }
#[verifier::external_body] pub struct OsStr { _p: () }
#[verifier::external_body] pub struct DirEntry { _p: () }
#[verifier::external_body] pub struct FileType { _p: () }
#[verifier::external_body] #[derive(Debug)] pub struct AnyhowError { _p: () }
#[verifier::external_body] #[derive(Debug)] pub struct IoError { _p: () }
#[verifier::external_body] pub struct WalkError { _p: () }
#[verifier::external_body] pub struct Instant { _p: () }
#[verifier::external_body] pub struct Duration { _p: () }
#[verifier::external_body] pub struct Display { _p: () }
pub type Result<T> = core::result::Result<T, AnyhowError>;

// ---- facts about this run ----
/// the argument vector the process was started with (one per process)
pub uninterp spec fn the_args() -> CliArguments;
/// `s` is what reading file `p` returned during this run
pub uninterp spec fn file_content(p: &Path, s: Seq<char>) -> bool;
/// `s` is what reading standard input returned
pub uninterp spec fn stdin_content(s: Seq<char>) -> bool;
/// `p` was named as an input file on the command line
pub uninterp spec fn named_input(p: &Path) -> bool;
/// `e` was yielded by the directory walk of this `format-all` run
pub uninterp spec fn walked(e: &DirEntry) -> bool;
/// the library: formatted text of `content` under `cfg`, or None when `content` has syntax errors
pub uninterp spec fn fmt_s(content: Seq<char>, cfg: Config) -> Option<Seq<char>>;

pub open spec fn to_config_s(s: StyleArgs) -> Config {
    Config { tab_spaces: s.tab_width, max_width: s.column, blank_lines_upper_bound: 2, reorder_import_items: s.reorder_import_items }
}
pub open spec fn the_cfg() -> Config { to_config_s(the_args().style) }

/// C15: what `format-all` may touch: a walked regular `*.typ` file that is not hidden (the walk never descends into hidden directories)
pub open spec fn walk_eligible(p: &Path) -> bool {
    exists|e: &DirEntry| walked(e) && e.path_s() == p && e.is_regular_file_s() && e.ext_is_typ_s() && (e.depth_s() == 0 || !e.hidden_s())
}
pub open spec fn eligible(p: &Path) -> bool { named_input(p) || walk_eligible(p) }

/// C15/C14: the only thing that may ever be written to `path`
pub open spec fn may_write(path: &Path, content: Seq<char>) -> bool {
    exists|old: Seq<char>| #[trigger] file_content(path, old) && fmt_s(old, the_cfg()) == Some(content) && content != old
}
/// C16/C14: the only thing that may ever be printed: the library's result for an input of this run, or that input itself if it is erroneous
pub open spec fn may_print(t: Seq<char>) -> bool {
    exists|c: Seq<char>| #[trigger] input_of_run(c) && (fmt_s(c, the_cfg()) == Some(t) || (fmt_s(c, the_cfg()) is None && t == c))
}
pub open spec fn input_of_run(c: Seq<char>) -> bool { stdin_content(c) || exists|p: &Path| named_input(p) && #[trigger] file_content(p, c) }

impl PathBuf {
    pub uninterp spec fn path_s(&self) -> &Path;
    #[verifier::external_body] pub fn as_path(&self) -> (r: &Path) ensures r == self.path_s() { unimplemented!() }
    #[verifier::external_body] pub fn display(&self) -> Display { unimplemented!() }
}
impl Clone for PathBuf {
    #[verifier::external_body] fn clone(&self) -> (r: PathBuf) ensures r.path_s() == self.path_s() { unimplemented!() }
}
impl core::ops::Deref for PathBuf {
    type Target = Path;
    #[verifier::external_body] fn deref(&self) -> (r: &Path) ensures r == self.path_s() { unimplemented!() }
}
impl Path {
    /// `Path::is_file` follows symbolic links; it says nothing about the walk's own entry type
    pub uninterp spec fn is_file_follow_s(&self) -> bool;
    pub uninterp spec fn ext_is_typ_s(&self) -> bool;
    #[verifier::external_body] pub fn is_file(&self) -> (r: bool) ensures r == self.is_file_follow_s() { unimplemented!() }
    #[verifier::external_body] pub fn is_dir(&self) -> bool { unimplemented!() }
    #[verifier::external_body] pub fn exists(&self) -> bool { unimplemented!() }
    #[verifier::external_body] pub fn display(&self) -> Display { unimplemented!() }
    /// rule R15: `p.extension() == Some("typ".as_ref())` is rewritten to `p.vp_ext_is_typ()`
    #[verifier::external_body] pub fn vp_ext_is_typ(&self) -> (r: bool) ensures r == self.ext_is_typ_s() { unimplemented!() }
}
impl FileType {
    pub uninterp spec fn is_file_s(&self) -> bool;
    #[verifier::external_body] pub fn is_file(&self) -> (r: bool) ensures r == self.is_file_s() { unimplemented!() }
    #[verifier::external_body] pub fn is_dir(&self) -> bool { unimplemented!() }
    #[verifier::external_body] pub fn is_symlink(&self) -> bool { unimplemented!() }
}
impl OsStr {
    pub uninterp spec fn utf8_s(&self) -> Option<Seq<char>>;
    #[verifier::external_body] pub fn to_str(&self) -> (r: Option<&str>)
        ensures match r { Option::Some(s) => self.utf8_s() == Some(s@), Option::None => self.utf8_s() is None } { unimplemented!() }
}
impl DirEntry {
    pub uninterp spec fn depth_s(&self) -> nat;
    pub uninterp spec fn path_s(&self) -> &Path;
    pub uninterp spec fn name_s(&self) -> &OsStr;
    pub uninterp spec fn file_type_s(&self) -> FileType;
    /// the entry's own name starts with `.`
    pub open spec fn hidden_s(&self) -> bool { self.name_s().utf8_s() matches Some(n) && n.len() > 0 && n[0] == '.' }
    pub open spec fn is_regular_file_s(&self) -> bool { self.file_type_s().is_file_s() }
    pub open spec fn ext_is_typ_s(&self) -> bool { self.path_s().ext_is_typ_s() }
    #[verifier::external_body] pub fn path(&self) -> (r: &Path) ensures r == self.path_s() { unimplemented!() }
    #[verifier::external_body] pub fn file_name(&self) -> (r: &OsStr) ensures r == self.name_s() { unimplemented!() }
    #[verifier::external_body] pub fn file_type(&self) -> (r: FileType) ensures r == self.file_type_s() { unimplemented!() }
    #[verifier::external_body] pub fn depth(&self) -> (r: usize) ensures r == self.depth_s() { unimplemented!() }
}

// ---- walkdir ----
#[verifier::external_body] pub struct WalkDir { _p: () }
#[verifier::external_body] pub struct WalkIntoIter { _p: () }
#[verifier::external_body] #[verifier::reject_recursive_types(P)] pub struct FilterEntry<P> { _p: core::marker::PhantomData<P> }
impl WalkDir {
    #[verifier::external_body] pub fn new(root: PathBuf) -> WalkDir { unimplemented!() }
    #[verifier::external_body] pub fn into_iter(self) -> WalkIntoIter { unimplemented!() }
}
impl WalkIntoIter {
    /// walkdir applies the predicate to EVERY entry including the root (depth 0) and skips rejected entries together
    /// with everything below them.  Obligation of the caller: the root entry is never rejected.
    #[verifier::external_body]
    pub fn filter_entry<P: FnMut(&DirEntry) -> bool>(self, predicate: P) -> (r: FilterEntry<P>)
        requires
            forall|e: &DirEntry| predicate.requires((e,)),
            forall|e: &DirEntry, b: bool| e.depth_s() == 0 && predicate.ensures((e,), b) ==> b,     //@tag C15 C14 root_entry_accepted
        ensures r.pred_s() == predicate,
    { unimplemented!() }
}
impl<P: FnMut(&DirEntry) -> bool> FilterEntry<P> {
    pub uninterp spec fn pred_s(&self) -> P;
    /// rule R4: `.filter_map(Result::ok)` is rewritten to this call; entries that cannot be read are skipped
    #[verifier::external_body]
    pub fn vp_filter_map_ok(self) -> (r: Vec<DirEntry>)
        ensures
            r@.len() < usize::MAX,
            forall|i: int| 0 <= i < r@.len() ==> walked(&#[trigger] r@[i]) && self.pred_s().ensures((&r@[i],), true),
    { unimplemented!() }
}

// ---- anyhow ----
pub trait Context<T>: Sized {
    spec fn ok_s(&self) -> Option<T>;
    fn with_context<C, F: FnOnce() -> C>(self, f: F) -> (r: Result<T>)
        requires f.requires(()),
        ensures (r matches Ok(v) ==> self.ok_s() == Some(v)), (r is Err ==> self.ok_s() is None);
}
impl<T> Context<T> for core::result::Result<T, IoError> {
    open spec fn ok_s(&self) -> Option<T> { match self { Ok(v) => Some(*v), Err(_) => Option::None } }
    #[verifier::external_body]
    fn with_context<C, F: FnOnce() -> C>(self, f: F) -> (r: Result<T>) { unimplemented!() }
}
/// C14: the file was read during this run and what was read equals its formatted form (or is erroneous, which counts as unchanged)
pub open spec fn file_is_formatted(p: &Path) -> bool {
    exists|c: Seq<char>| #[trigger] file_content(p, c) && input_of_run(c) && !(fmt_s(c, the_cfg()) matches Some(f) && f != c)
}
#[verifier::external_body] pub fn vp_anyhow() -> AnyhowError { unimplemented!() }
#[verifier::external_body] pub fn vp_format() -> String { unimplemented!() }
/// logging is not modelled (rule R5)
#[verifier::external_body] pub fn vp_log() { unimplemented!() }
/// `{:#?}` debug dumps requested by --ast / --pretty-doc are not modelled (rule R5)
#[verifier::external_body] pub fn vp_debug_print() { unimplemented!() }

// ---- stdout (rule R5: print!("{}", e) -> vp_print(&e); println!("{}", e) -> vp_println(&e)) ----
#[verifier::external_body]
pub fn vp_print(t: &String)
    requires
        !the_args().check,          //@tag C14 no_print_in_check_mode
        !the_args().inplace,        //@tag C16 C15 no_print_when_inplace
        may_print(t@),              //@tag C16 prints_only_library_result
{ unimplemented!() }
#[verifier::external_body]
pub fn vp_println(t: &String)
    requires false,                 //@tag C16 C14 no_added_newline
{ unimplemented!() }
#[verifier::external_body]
pub fn vp_print_other()
    requires false,                 //@tag C16 C14 no_other_output
{ unimplemented!() }

// ---- std::fs, std::io, std::env, std::time (rule R14: `std::` paths in bodies are rewritten to `vp_std::`) ----
pub mod vp_std {
    use super::*;
    pub mod fs {
        use super::super::*;
        #[verifier::external_body]
        pub fn read_to_string(p: &Path) -> (r: core::result::Result<String, IoError>)
            ensures r matches Ok(s) ==> file_content(p, s@),
        { unimplemented!() }
        #[verifier::external_body]
        pub fn write(p: &Path, content: &str) -> (r: core::result::Result<(), IoError>)
            requires
                !the_args().check,            //@tag C14 no_write_in_check_mode
                may_write(p, content@),       //@tag C15 writes_only_formatted_text_of_what_was_read
                eligible(p),                  //@tag C15 writes_only_eligible_files
        { unimplemented!() }
    }
    pub mod io {
        use super::super::*;
        #[verifier::external_body] pub struct Stdin { _p: () }
        #[verifier::external_body] pub fn stdin() -> Stdin { unimplemented!() }
        impl Stdin {
            #[verifier::external_body]
            pub fn read_to_string(&mut self, buf: &mut String) -> (r: core::result::Result<usize, IoError>)
                requires old(buf)@.len() == 0,
                ensures r is Ok ==> stdin_content(final(buf)@),
            { unimplemented!() }
        }
    }
    pub mod env {
        use super::super::*;
        /// ASSUMED: the current directory is readable
        #[verifier::external_body] pub fn current_dir() -> (r: core::result::Result<PathBuf, IoError>) ensures r is Ok { unimplemented!() }
    }
}
impl Instant {
    #[verifier::external_body] pub fn now() -> Instant { unimplemented!() }
    #[verifier::external_body] pub fn elapsed(&self) -> Duration { unimplemented!() }
}

// ---- typst_syntax::Source and the typstyle_core library ----
#[verifier::external_body] pub struct Source { _p: () }
#[verifier::external_body] pub struct SyntaxNodeRoot { _p: () }
#[verifier::external_body] pub struct ArenaDoc { _p: () }
impl Source {
    pub uninterp spec fn text_s(&self) -> Seq<char>;
    #[verifier::external_body] pub fn detached(text: &String) -> (r: Source) ensures r.text_s() == text@ { unimplemented!() }
    #[verifier::external_body] pub fn root(&self) -> &SyntaxNodeRoot { unimplemented!() }
}
pub struct LibError { pub _p: () }
pub struct Typstyle { pub config: Config }
impl Typstyle {
    pub fn new(config: Config) -> (r: Self) ensures r.config == config { Self { config } }
    #[verifier::external_body]
    pub fn format_content(self, content: &String) -> (r: core::result::Result<String, LibError>)
        ensures (r matches Ok(s) ==> fmt_s(content@, self.config) == Some(s@)), (r is Err ==> fmt_s(content@, self.config) is None),
    { unimplemented!() }
    #[verifier::external_body]
    pub fn format_source_inspect<F: FnOnce(&ArenaDoc)>(self, source: &Source, inspector: F) -> (r: core::result::Result<String, LibError>)
        requires forall|d: &ArenaDoc| inspector.requires((d,)),
        ensures (r matches Ok(s) ==> fmt_s(source.text_s(), self.config) == Some(s@)), (r is Err ==> fmt_s(source.text_s(), self.config) is None),
    { unimplemented!() }
}
/// `a == b` / `a != b` on Strings (rule R16: rewritten to this shim when vstd has no spec for the comparison)
#[verifier::external_body]
pub fn vp_str_eq(a: &String, b: &String) -> (r: bool) ensures r == (a@ == b@) { unimplemented!() }
#[verifier::external_body]
pub fn vp_str_starts_with_char(s: &str, c: char) -> (r: bool) ensures r == (s@.len() > 0 && s@[0] == c) { unimplemented!() }

/// shell completion generation (clap_complete) is not modelled
pub mod clap_complete { use super::*; #[verifier::external_body] pub struct Shell { _p: () } }
#[verifier::external_body] pub fn vp_generate_completions() { unimplemented!() }

// ---- process start-up (clap, logging): not modelled beyond what the parsed arguments guarantee ----
/// ASSUMED (clap + validate_input): `--inplace` conflicts with `--check`; `--inplace` needs an input file; the input
/// paths are exactly the files named on the command line.
pub open spec fn args_wf(a: CliArguments) -> bool {
    &&& a.parsed_ok()
    &&& (a.command is None && a.inplace ==> a.input@.len() > 0)
    &&& forall|i: int| 0 <= i < a.input@.len() ==> named_input(#[trigger] a.input@[i].path_s())
}
impl CliArguments {
    /// rule R17: `CliArguments::parse()` (clap derive) is rewritten to this call
    #[verifier::external_body]
    pub fn vp_parse() -> (r: CliArguments) ensures r == the_args(), args_wf(r) { unimplemented!() }
    #[verifier::external_body]
    pub fn validate_input(&self) { unimplemented!() }
}
pub mod logging { use super::*; #[verifier::external_body] pub fn init() { unimplemented!() } }
pub mod log {
    use super::*;
    pub enum LevelFilter { Off, Error, Warn, Info, Debug, Trace }
    #[verifier::external_body] pub fn set_max_level(l: LevelFilter) { unimplemented!() }
}
