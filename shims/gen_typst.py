#!/usr/bin/env python3
import re
"""Generates shims/typst_gen.rs: SyntaxKind, the typed AST node wrappers and their cast tables.
The tables are copied from typst-syntax 0.13.1 (kind.rs, ast.rs) and re-checked against the real crate by
conformance/ (thorough tier).  Run: python3 shims/gen_typst.py > shims/typst_gen.rs
"""
KINDS = """End Error Shebang LineComment BlockComment Markup Text Space Linebreak Parbreak Escape Shorthand SmartQuote Strong Emph Raw RawLang RawDelim RawTrimmed Link Label Ref RefMarker Heading HeadingMarker ListItem ListMarker EnumItem EnumMarker TermItem TermMarker Equation Math MathText MathIdent MathShorthand MathAlignPoint MathDelimited MathAttach MathPrimes MathFrac MathRoot Hash LeftBrace RightBrace LeftBracket RightBracket LeftParen RightParen Comma Semicolon Colon Star Underscore Dollar Plus Minus Slash Hat Prime Dot Eq EqEq ExclEq Lt LtEq Gt GtEq PlusEq HyphEq StarEq SlashEq Dots Arrow Root Not And Or None Auto Let Set Show Context If Else For In While Break Continue Return Import Include As Code Ident Bool Int Float Numeric Str CodeBlock ContentBlock Parenthesized Array Dict Named Keyed Unary Binary FieldAccess FuncCall Args Spread Closure Params LetBinding SetRule ShowRule Contextual Conditional WhileLoop ForLoop ModuleImport ImportItems ImportItemPath RenamedImportItem ModuleInclude LoopBreak LoopContinue FuncReturn Destructuring DestructAssignment""".split()

KEYWORDS = "Not And Or None Auto Let Set Show Context If Else For In While Break Continue Return Import Include As".split()

NODES = ['Markup', 'Text', 'Space', 'Linebreak', 'Parbreak', 'Escape', 'Shorthand', 'SmartQuote', 'Strong', 'Emph', 'Raw', 'RawLang', 'RawDelim', 'Link', 'Label', 'Ref', 'Heading', 'ListItem', 'EnumItem', 'TermItem', 'Equation', 'Math', 'MathText', 'MathIdent', 'MathShorthand', 'MathAlignPoint', 'MathDelimited', 'MathAttach', 'MathPrimes', 'MathFrac', 'MathRoot', 'Ident', 'None', 'Auto', 'Bool', 'Int', 'Float', 'Numeric', 'Str', 'CodeBlock', 'Code', 'ContentBlock', 'Parenthesized', 'Array', 'Dict', 'Named', 'Keyed', 'Spread', 'Unary', 'Binary', 'FieldAccess', 'FuncCall', 'Args', 'Closure', 'Params', 'Underscore', 'Destructuring', 'LetBinding', 'DestructAssignment', 'SetRule', 'ShowRule', 'Contextual', 'Conditional', 'WhileLoop', 'ForLoop', 'ModuleImport', 'ImportItems', 'ImportItemPath', 'RenamedImportItem', 'ModuleInclude', 'LoopBreak', 'LoopContinue', 'FuncReturn']

# Expr variant -> (payload type == SyntaxKind it is cast from); None = variant exists but is never produced by from_untyped
EXPR = [('Text', 'Text'), ('Space', 'Space'), ('Linebreak', 'Linebreak'), ('Parbreak', 'Parbreak'), ('Escape', 'Escape'),
        ('Shorthand', 'Shorthand'), ('SmartQuote', 'SmartQuote'), ('Strong', 'Strong'), ('Emph', 'Emph'), ('Raw', 'Raw'),
        ('Link', 'Link'), ('Label', 'Label'), ('Ref', 'Ref'), ('Heading', 'Heading'), ('List', 'ListItem'), ('Enum', 'EnumItem'),
        ('Term', 'TermItem'), ('Equation', 'Equation'), ('Math', 'Math'), ('MathText', 'MathText'), ('MathIdent', 'MathIdent'),
        ('MathShorthand', 'MathShorthand'), ('MathAlignPoint', 'MathAlignPoint'), ('MathDelimited', 'MathDelimited'),
        ('MathAttach', 'MathAttach'), ('MathPrimes', 'MathPrimes'), ('MathFrac', 'MathFrac'), ('MathRoot', 'MathRoot'),
        ('Ident', 'Ident'), ('None', 'None'), ('Auto', 'Auto'), ('Bool', 'Bool'), ('Int', 'Int'), ('Float', 'Float'),
        ('Numeric', 'Numeric'), ('Str', 'Str'), ('Code', 'CodeBlock'), ('Content', 'ContentBlock'),
        ('Parenthesized', 'Parenthesized'), ('Array', 'Array'), ('Dict', 'Dict'), ('Unary', 'Unary'), ('Binary', 'Binary'),
        ('FieldAccess', 'FieldAccess'), ('FuncCall', 'FuncCall'), ('Closure', 'Closure'), ('Let', 'LetBinding'),
        ('DestructAssign', 'DestructAssignment'), ('Set', 'SetRule'), ('Show', 'ShowRule'), ('Contextual', 'Contextual'),
        ('Conditional', 'Conditional'), ('While', 'WhileLoop'), ('For', 'ForLoop'), ('Import', 'ModuleImport'),
        ('Include', 'ModuleInclude'), ('Break', 'LoopBreak'), ('Continue', 'LoopContinue'), ('Return', 'FuncReturn')]
EXPR_NOT_CAST = {'Space'}      # typst-syntax 0.13.1: Expr::from_untyped has no arm for SyntaxKind::Space

# enums whose from_untyped is "match kind { K1 => V1, ... , _ => Fallback(cast) | None }"
SUMS = {
    'Pattern': ([('Placeholder', 'Underscore'), ('Parenthesized', 'Parenthesized'), ('Destructuring', 'Destructuring')], ('Normal', 'Expr')),
    'Arg': ([('Named', 'Named'), ('Spread', 'Spread')], ('Pos', 'Expr')),
    'ArrayItem': ([('Spread', 'Spread')], ('Pos', 'Expr')),
    'DictItem': ([('Named', 'Named'), ('Keyed', 'Keyed'), ('Spread', 'Spread')], None),
    'Param': ([('Named', 'Named'), ('Spread', 'Spread')], ('Pos', 'Pattern')),
    'DestructuringItem': ([('Named', 'Named'), ('Spread', 'Spread')], ('Pattern', 'Pattern')),
}


def SN(n):
    """struct name of a node type: `None` would shadow Option::None through `use ast::*` (its real field is private)"""
    return 'VpNone' if n == 'None' else n


def main(stub=False):
    o = []
    w = o.append
    w('// ---- shims/typst_gen.rs : GENERATED by shims/gen_typst.py from typst-syntax 0.13.1 (kind.rs, ast.rs) -- TRUSTED tables ----')
    w('#[derive(Clone, Copy, PartialEq, Eq, Structural)]')
    w('pub enum SyntaxKind {')
    for k in KINDS:
        w('    %s,' % k)
    w('}')
    w('impl SyntaxKind {')
    w('    pub open spec fn is_keyword_s(self) -> bool { matches!(self, %s) }' % ' | '.join('SyntaxKind::' + k for k in KEYWORDS))
    w('    #[verifier::external_body]')
    w('    pub fn is_keyword(self) -> (r: bool) ensures r == self.is_keyword_s() { unimplemented!() }')
    w('    pub open spec fn is_trivia_s(self) -> bool { matches!(self, SyntaxKind::Shebang | SyntaxKind::LineComment | SyntaxKind::BlockComment | SyntaxKind::Space | SyntaxKind::Parbreak) }')
    w('    #[verifier::external_body]')
    w('    pub fn is_trivia(self) -> (r: bool) ensures r == self.is_trivia_s() { unimplemented!() }')
    w('}')
    w('')
    w('pub mod ast {')
    w('use super::*;')
    w("pub trait AstNode<'a>: Sized {")
    w('    /// kinds this type can be cast from')
    w('    spec fn castable(node: &SyntaxNode) -> bool;')
    w('    /// the underlying node (spec version of `to_untyped`)')
    w("    spec fn node(self) -> &'a SyntaxNode;")
    w('    /// typed wrapper invariant: the wrapped node has a castable kind (for enums: also the right variant)')
    w('    spec fn wf(self) -> bool;')
    w("    fn from_untyped(node: &'a SyntaxNode) -> (r: Option<Self>)")
    w('        ensures r is Some <==> Self::castable(node), r matches Some(t) ==> t.node() == node && t.wf();')
    w("    fn to_untyped(self) -> (r: &'a SyntaxNode)")
    w('        ensures r == self.node();')
    w('}')
    w('')
    for n0 in NODES:
        n = SN(n0)
        w('#[derive(Clone, Copy)]')
        w("pub struct %s<'a>(pub &'a SyntaxNode);" % n)
        w("impl<'a> AstNode<'a> for %s<'a> {" % n)
        w('    open spec fn castable(node: &SyntaxNode) -> bool { node.kind_s() == SyntaxKind::%s }' % n0)
        w("    open spec fn node(self) -> &'a SyntaxNode { self.0 }")
        w('    open spec fn wf(self) -> bool { self.0.kind_s() == SyntaxKind::%s }' % n0)
        w("    fn from_untyped(node: &'a SyntaxNode) -> (r: Option<Self>) { if node.kind() == SyntaxKind::%s { Some(Self(node)) } else { Option::None } }" % n0)
        w("    fn to_untyped(self) -> (r: &'a SyntaxNode) { self.0 }")
        w('}')
    w('')
    # Expr
    w('#[derive(Clone, Copy)]')
    w("pub enum Expr<'a> {")
    for v, t in EXPR:
        w("    %s(%s<'a>)," % (v, SN(t)))
    w('}')
    w("impl<'a> AstNode<'a> for Expr<'a> {")
    w('    open spec fn castable(node: &SyntaxNode) -> bool { expr_kind(node.kind_s()) }')
    w("    open spec fn node(self) -> &'a SyntaxNode { match self { %s } }" % ' '.join('Expr::%s(v) => v.0,' % v for v, _ in EXPR))
    w('    open spec fn wf(self) -> bool { match self { %s } }' % ' '.join('Expr::%s(v) => v.wf(),' % v for v, _ in EXPR))
    w(("    #[verifier::external_body] " if stub else "    ") + "fn from_untyped(node: &'a SyntaxNode) -> (r: Option<Self>) {")
    w('        match node.kind() {')
    for v, t in EXPR:
        if v in EXPR_NOT_CAST:
            continue
        w('            SyntaxKind::%s => Some(Expr::%s(%s(node))),' % (t, v, SN(t)))
    w('            _ => Option::None,')
    w('        }')
    w('    }')
    w("    fn to_untyped(self) -> (r: &'a SyntaxNode) { match self { %s } }" % ' '.join('Expr::%s(v) => v.0,' % v for v, _ in EXPR))
    w('}')
    w('pub open spec fn expr_kind(k: SyntaxKind) -> bool { matches!(k, %s) }' % ' | '.join('SyntaxKind::' + t for v, t in EXPR if v not in EXPR_NOT_CAST))
    w('')
    for name, (arms, fb) in SUMS.items():
        w('#[derive(Clone, Copy)]')
        w("pub enum %s<'a> {" % name)
        for v, t in arms:
            w("    %s(%s<'a>)," % (v, t))
        if fb:
            w("    %s(%s<'a>)," % fb)
        w('}')
        allv = arms + ([fb] if fb else [])
        w("impl<'a> AstNode<'a> for %s<'a> {" % name)
        cond = ' || '.join('node.kind_s() == SyntaxKind::%s' % t for v, t in arms)
        if fb:
            cond += " || %s::castable(node)" % fb[1]
        w('    open spec fn castable(node: &SyntaxNode) -> bool { %s }' % cond)
        w("    open spec fn node(self) -> &'a SyntaxNode { match self { %s } }" % ' '.join('%s::%s(v) => v.node(),' % (name, v) for v, _ in allv))
        wfarms = []
        for v, t in arms:
            wfarms.append('%s::%s(v) => v.wf(),' % (name, v))
        if fb:
            excl = ' && '.join('v.node().kind_s() != SyntaxKind::%s' % t for _, t in arms)
            wfarms.append('%s::%s(v) => v.wf() && %s,' % (name, fb[0], excl))
        w('    open spec fn wf(self) -> bool { match self { %s } }' % ' '.join(wfarms))
        w(("    #[verifier::external_body] " if stub else "    ") + "fn from_untyped(node: &'a SyntaxNode) -> (r: Option<Self>) {")
        w('        match node.kind() {')
        for v, t in arms:
            w('            SyntaxKind::%s => Some(%s::%s(%s(node))),' % (t, name, v, t))
        if fb:
            w('            _ => match %s::from_untyped(node) { Some(x) => Some(%s::%s(x)), Option::None => Option::None },' % (fb[1], name, fb[0]))
        else:
            w('            _ => Option::None,')
        w('        }')
        w('    }')
        w("    fn to_untyped(self) -> (r: &'a SyntaxNode) { match self { %s } }" % ' '.join('%s::%s(v) => v.to_untyped(),' % (name, v) for v, _ in allv))
        w('}')
    w('} // mod ast')
    w('pub use ast::AstNode;')
    txt = '\n'.join(o)
    if stub:
        # contract-only variant: the cast functions are verified once in unit u_shims, assumed elsewhere
        txt = re.sub(r"^(\s*)(fn (from_untyped|to_untyped)\(.*?\) -> \(r: [^)]*\)) \{.*\}$", r"\1#[verifier::external_body] \2 { unimplemented!() }", txt, flags=re.M)
        txt = txt.replace('// ---- shims/typst_gen.rs', '// ---- shims/typst_gen_stub.rs (bodies verified in unit u_shims)')
    print(txt)


if __name__ == '__main__':
    import sys
    main(stub='--stub' in sys.argv)
