// ---- shims/pretty.rs : TRUSTED model of the `pretty` crate's builder API (Arena, DocBuilder) ----
#[verifier::external_body]
pub struct Arena<'a> { _p: core::marker::PhantomData<&'a ()> }
#[verifier::external_body]
#[verifier::reject_recursive_types(A)]
pub struct DocBuilder<'a, A> { _p: core::marker::PhantomData<&'a A> }
pub type ArenaDoc<'a> = DocBuilder<'a, Arena<'a>>;

impl<'a> View for DocBuilder<'a, Arena<'a>> { type V = DocV; uninterp spec fn view(&self) -> DocV; }

/// anything `+`, `enclose`, `flat_alt` ... accept (`Pretty` in the real crate)
pub trait IntoDoc { spec fn docv(&self) -> DocV; }
impl<'a> IntoDoc for ArenaDoc<'a> { open spec fn docv(&self) -> DocV { self@ } }
impl<'b> IntoDoc for &'b str { open spec fn docv(&self) -> DocV { DocV::Text(self@) } }
impl<'a> IntoDoc for Option<ArenaDoc<'a>> { open spec fn docv(&self) -> DocV { match self { Option::Some(d) => d@, Option::None => DocV::Nil } } }

/// anything `text()` accepts (`Into<Cow<str>>` in the real crate)
pub trait TextArg { spec fn chars(&self) -> Seq<char>; }
impl<'b> TextArg for &'b str { open spec fn chars(&self) -> Seq<char> { self@ } }
impl TextArg for String { open spec fn chars(&self) -> Seq<char> { self@ } }

impl<'a> Arena<'a> {
    #[verifier::external_body]
    pub fn new() -> Self { unimplemented!() }
    #[verifier::external_body]
    pub fn nil(&'a self) -> (r: ArenaDoc<'a>) ensures r@ == DocV::Nil { unimplemented!() }
    #[verifier::external_body]
    pub fn space(&'a self) -> (r: ArenaDoc<'a>) ensures r@ == sp() { unimplemented!() }
    #[verifier::external_body]
    pub fn hardline(&'a self) -> (r: ArenaDoc<'a>) ensures r@ == DocV::Hardline { unimplemented!() }
    #[verifier::external_body]
    pub fn line(&'a self) -> (r: ArenaDoc<'a>) ensures r@ == DocV::Line { unimplemented!() }
    #[verifier::external_body]
    pub fn line_(&'a self) -> (r: ArenaDoc<'a>) ensures r@ == DocV::LineSoft { unimplemented!() }
    #[verifier::external_body]
    pub fn text<U: TextArg>(&'a self, s: U) -> (r: ArenaDoc<'a>) ensures r@ == DocV::Text(s.chars()) { unimplemented!() }
}

impl<'a> Clone for DocBuilder<'a, Arena<'a>> {
    #[verifier::external_body]
    fn clone(&self) -> (r: Self) ensures r@ == self@ { unimplemented!() }
}

impl<'a, E: IntoDoc> core::ops::Add<E> for DocBuilder<'a, Arena<'a>> {
    type Output = DocBuilder<'a, Arena<'a>>;
    #[verifier::external_body]
    fn add(self, other: E) -> (r: Self::Output) ensures r@ == cat(self@, other.docv()) { unimplemented!() }
}
impl<'a, E: IntoDoc> core::ops::AddAssign<E> for DocBuilder<'a, Arena<'a>> {
    #[verifier::external_body]
    fn add_assign(&mut self, other: E) ensures final(self)@ == cat(old(self)@, other.docv()) { unimplemented!() }
}
impl<'a, E: IntoDoc> vstd::std_specs::ops::AddSpecImpl<E> for DocBuilder<'a, Arena<'a>> {
    open spec fn obeys_add_spec() -> bool { false }
    open spec fn add_req(self, rhs: E) -> bool { true }
    open spec fn add_spec(self, rhs: E) -> Self::Output { arbitrary() }
}
impl<'a, E: IntoDoc> vstd::std_specs::ops::AddAssignSpecImpl<E> for DocBuilder<'a, Arena<'a>> {
    open spec fn obeys_add_assign_spec() -> bool { false }
    open spec fn add_assign_req(&self, rhs: E) -> bool { true }
    open spec fn add_assign_spec(&self, rhs: E) -> &Self { arbitrary() }
}
impl<'a> DocBuilder<'a, Arena<'a>> {
    #[verifier::external_body]
    pub fn append<E: IntoDoc>(self, that: E) -> (r: Self) ensures r@ == cat(self@, that.docv()) { unimplemented!() }
    #[verifier::external_body]
    pub fn nest(self, n: isize) -> (r: Self) ensures r@ == nest(n as int, self@) { unimplemented!() }
    #[verifier::external_body]
    pub fn group(self) -> (r: Self) ensures r@ == group(self@) { unimplemented!() }
    #[verifier::external_body]
    pub fn align(self) -> (r: Self) ensures r@ == align(self@) { unimplemented!() }
    /// `hang(n)` is `nest(n).align()` in the real crate
    #[verifier::external_body]
    pub fn hang(self, n: isize) -> (r: Self) ensures r@ == align(nest(n as int, self@)) { unimplemented!() }
    #[verifier::external_body]
    pub fn flat_alt<E: IntoDoc>(self, that: E) -> (r: Self) ensures r@ == flat_alt(self@, that.docv()) { unimplemented!() }
    #[verifier::external_body]
    pub fn enclose<E: IntoDoc, F: IntoDoc>(self, before: E, after: F) -> (r: Self) ensures r@ == cat(cat(before.docv(), self@), after.docv()) { unimplemented!() }
    #[verifier::external_body]
    pub fn parens(self) -> (r: Self) ensures r@ == cat(cat(DocV::Text(seq!['(']), self@), DocV::Text(seq![')'])) { unimplemented!() }
    #[verifier::external_body]
    pub fn brackets(self) -> (r: Self) ensures r@ == cat(cat(DocV::Text(seq!['[']), self@), DocV::Text(seq![']'])) { unimplemented!() }
    /// rule R2: `doc + "lit"` / `doc += str_expr` are rewritten to these two (Verus internal error on `Add<&T>`)
    #[verifier::external_body]
    pub fn vp_add_str(self, s: &str) -> (r: Self) ensures r@ == cat(self@, DocV::Text(s@)) { unimplemented!() }
    #[verifier::external_body]
    pub fn vp_add_assign_str(&mut self, s: &str) ensures final(self)@ == cat(old(self)@, DocV::Text(s@)) { unimplemented!() }
}

/// crate::pretty::doc_ext::DocExt (generic over the allocator in the real code; its loop is `nil` + n x `append(clone)`): ASSUMED
pub trait DocExt: Sized { fn repeat_n(self, n: usize) -> Self; }
impl<'a> DocExt for DocBuilder<'a, Arena<'a>> {
    #[verifier::external_body]
    fn repeat_n(self, n: usize) -> (r: Self) ensures r@ == repeat_doc(self@, n as nat) { unimplemented!() }
}

/// views of a vector of documents
pub open spec fn docs_v<'a>(s: Seq<ArenaDoc<'a>>) -> Seq<DocV> { s.map_values(|d: ArenaDoc<'a>| d@) }
/// anything `concat` / `intersperse` accept: its documents in order
pub trait DocSeq { spec fn docs(&self) -> Seq<DocV>; }
impl<'a> DocSeq for Vec<ArenaDoc<'a>> { open spec fn docs(&self) -> Seq<DocV> { docs_v(self@) } }
impl<'a> DocSeq for VpIter<ArenaDoc<'a>> { open spec fn docs(&self) -> Seq<DocV> { docs_v(self.rest()) } }
impl<'a> Arena<'a> {
    #[verifier::external_body]
    pub fn concat<I: DocSeq>(&'a self, docs: I) -> (r: ArenaDoc<'a>) ensures r@ == cat_all(docs.docs()) { unimplemented!() }
    #[verifier::external_body]
    pub fn intersperse<I: DocSeq, S: IntoDoc>(&'a self, docs: I, sep: S) -> (r: ArenaDoc<'a>) ensures r@ == intersperse_doc(docs.docs(), sep.docv()) { unimplemented!() }
}
impl<'b, 'a> DocSeq for alloc::vec::Drain<'b, ArenaDoc<'a>> { open spec fn docs(&self) -> Seq<DocV> { docs_v(drain_items(self)) } }
