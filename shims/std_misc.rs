// ---- shims/std_misc.rs : TRUSTED contracts for rustc_hash::FxHashMap and std items vstd does not cover ----
#[verifier::external_body]
#[verifier::reject_recursive_types(K)]
#[verifier::reject_recursive_types(V)]
pub struct FxHashMap<K, V> { _p: core::marker::PhantomData<(K, V)> }

pub trait VpDefault: Sized { spec fn default_s() -> Self; }

impl<K, V> View for FxHashMap<K, V> { type V = Map<K, V>; uninterp spec fn view(&self) -> Map<K, V>; }

impl<K, V> FxHashMap<K, V> {
    #[verifier::external_body]
    pub fn vp_new() -> (r: Self) ensures r@ == Map::<K, V>::empty() { unimplemented!() }
    #[verifier::external_body]
    pub fn get(&self, k: &K) -> (r: Option<&V>)
        ensures match r { Option::Some(v) => self@.contains_key(*k) && *v == self@[*k], Option::None => !self@.contains_key(*k) },
    { unimplemented!() }
}
impl<K, V> Default for FxHashMap<K, V> {
    #[verifier::external_body]
    fn default() -> (r: Self) ensures r@ == Map::<K, V>::empty() { unimplemented!() }
}
impl<K, V: VpDefault> FxHashMap<K, V> {
    /// rule R11: `map.entry(k).or_default()` is rewritten to this single call
    #[verifier::external_body]
    pub fn vp_entry_or_default(&mut self, k: K) -> (r: &mut V)
        ensures
            *r == (if old(self)@.contains_key(k) { old(self)@[k] } else { V::default_s() }),
            final(self)@ == old(self)@.insert(k, *final(r)),
    { unimplemented!() }
}

pub assume_specification<T, F: FnOnce(T) -> bool>[ Option::<T>::is_some_and ](o: Option<T>, f: F) -> (r: bool)
    requires o matches Some(x) ==> f.requires((x,)),
    ensures
        o is None ==> !r,
        o matches Some(x) ==> f.ensures((x,), r);

pub assume_specification<T, P: FnOnce(&T) -> bool>[ Option::<T>::filter ](o: Option<T>, p: P) -> (r: Option<T>)
    requires o matches Some(x) ==> p.requires((&x,)),
    ensures
        o is None ==> r is None,
        o matches Some(x) ==> (exists|b: bool| p.ensures((&x,), b) && r == (if b { Option::Some(x) } else { Option::None }));

pub assume_specification<T, E, F: FnOnce(E) -> T>[ core::result::Result::<T, E>::unwrap_or_else ](res: core::result::Result<T, E>, f: F) -> (r: T)
    requires res matches Err(e) ==> f.requires((e,)),
    ensures
        res matches Ok(v) ==> r == v,
        res matches Err(e) ==> f.ensures((e,), r);

// ---- Vec::drain / last_mut / extend (allocator_api needed for the Drain type parameters) ----
#[verifier::external_type_specification]
#[verifier::external_body]
#[verifier::reject_recursive_types(T)]
#[verifier::reject_recursive_types(A)]
pub struct ExDrain<'a, T: 'a, A: core::alloc::Allocator>(alloc::vec::Drain<'a, T, A>);

pub assume_specification<'a, T, A: core::alloc::Allocator, R: core::ops::RangeBounds<usize>>[ alloc::vec::Vec::<T, A>::drain ](v: &'a mut Vec<T, A>, r: R) -> (d: alloc::vec::Drain<'a, T, A>)
    // only used as `drain(..)`: the whole vector is drained
    ensures drain_items(&d) == old(v)@, d.remaining() == old(v)@, final(v)@ == Seq::<T>::empty(), d.obeys_prophetic_iter_laws(), d.will_return_none(), d.decrease() is Some;
/// the elements a `Drain` will yield (non-prophetic name for use in ordinary specs)
pub uninterp spec fn drain_items<'a, T, A: core::alloc::Allocator>(d: &alloc::vec::Drain<'a, T, A>) -> Seq<T>;

/// rule R9: `dst.extend(src.drain(..).map(f))` is rewritten to `vp_extend_map(&mut dst, src.drain(..), f)`
#[verifier::external_body]
pub fn vp_extend_map<'b, T, U, F: FnMut(T) -> U>(dst: &mut Vec<U>, src: alloc::vec::Drain<'b, T>, f: F)
    requires forall|x: T| f.requires((x,)),
    ensures
        final(dst)@.len() == old(dst)@.len() + drain_items(&src).len(),
        forall|k: int| 0 <= k < old(dst)@.len() ==> final(dst)@[k] == old(dst)@[k],
        forall|k: int| 0 <= k < drain_items(&src).len() ==> f.ensures((drain_items(&src)[k],), #[trigger] final(dst)@[old(dst)@.len() + k]),
{ unimplemented!() }

/// a slice holds at most usize::MAX elements (its `len()` is a usize)
#[verifier::external_body]
pub proof fn axiom_slice_len_bound<T>(s: &[T])
    ensures s@.len() <= usize::MAX,
{}
/// a vector of non-zero-sized elements holds fewer than usize::MAX elements (allocation limit isize::MAX bytes)
#[verifier::external_body]
pub proof fn axiom_vec_len_bound<T>(v: &Vec<T>)
    ensures v@.len() < usize::MAX,
{}

// ---- std::collections::HashSet of string keys (import.rs), slice helpers ----
pub trait VpKey { spec fn key(&self) -> Seq<char>; }
impl<'b> VpKey for &'b str { open spec fn key(&self) -> Seq<char> { self@ } }
#[verifier::external_body]
#[verifier::reject_recursive_types(T)]
pub struct HashSet<T> { _p: core::marker::PhantomData<T> }
impl<T: VpKey> HashSet<T> {
    pub uninterp spec fn view(&self) -> Set<Seq<char>>;
    #[verifier::external_body]
    pub fn new() -> (r: Self) ensures r@ == Set::<Seq<char>>::empty() { unimplemented!() }
    /// only `insert` exists on purpose: the set is never iterated (C17: hash order cannot leak)
    #[verifier::external_body]
    pub fn insert(&mut self, k: T) -> (r: bool)
        ensures r == !old(self)@.contains(k.key()), final(self)@ == old(self)@.insert(k.key()),
    { unimplemented!() }
}
/// rule R9: `v.iter().all(f)` on a vector
#[verifier::external_body]
pub fn vp_vec_all<T, F: FnMut(&T) -> bool>(v: &Vec<T>, f: F) -> (r: bool)
    requires forall|x: &T| f.requires((x,)),
    ensures
        r ==> (forall|k: int| 0 <= k < v@.len() ==> f.ensures((&#[trigger] v@[k],), true)),
        !r ==> (exists|k: int| 0 <= k < v@.len() && f.ensures((&#[trigger] v@[k],), false)),
{ unimplemented!() }
/// rule R9: `v.sort_by_key(f)`: a (stable) permutation ordered by the key
#[verifier::external_body]
pub fn vp_sort_by_key<T, K, F: FnMut(&T) -> K>(v: &mut Vec<T>, f: F)
    requires forall|x: &T| f.requires((x,)),
    ensures final(v)@.to_multiset() == old(v)@.to_multiset(), final(v)@.len() == old(v)@.len(),
{ unimplemented!() }
// ---- rule R29: an untracked cell (std::cell::Cell semantics).  A `let mut` local that a closure captures mutably -- which Verus
// rejects outright -- is rewritten into one of these.  The contracts say nothing about the content: every read yields an arbitrary
// value, so everything proved about the surrounding code holds whatever the cell holds (over-approximation of the real state).
#[verifier::external_body]
#[verifier::reject_recursive_types(T)]
pub struct VpCell<T> { _p: core::marker::PhantomData<T> }
impl<T> VpCell<T> {
    #[verifier::external_body]
    pub fn vp_new(v: T) -> (r: Self) { unimplemented!() }
    #[verifier::external_body]
    pub fn vp_get(&self) -> (r: T) { unimplemented!() }
    #[verifier::external_body]
    pub fn vp_set(&self, v: T) { unimplemented!() }
    #[verifier::external_body]
    pub fn replace(&self, v: T) -> (r: T) { unimplemented!() }
}
