// ---- shims/std_misc.rs : TRUSTED contracts for rustc_hash::FxHashMap and std items vstd does not cover ----
#[verifier::external_body]
#[verifier::reject_recursive_types(K)]
#[verifier::reject_recursive_types(V)]
pub struct FxHashMap<K, V> { _p: core::marker::PhantomData<(K, V)> }

pub trait VpDefault: Sized { spec fn default_s() -> Self; }

impl<K, V> View for FxHashMap<K, V> { type V = Map<K, V>; uninterp spec fn view(&self) -> Map<K, V>; }

impl<K, V> FxHashMap<K, V> {
    #[verifier::external_body]
    pub fn vp_new() -> (r: Self) ensures r@ == Map::<K, V>::empty() { unimplemented!() }
    #[verifier::external_body]
    pub fn get(&self, k: &K) -> (r: Option<&V>)
        ensures match r { Option::Some(v) => self@.contains_key(*k) && *v == self@[*k], Option::None => !self@.contains_key(*k) },
    { unimplemented!() }
}
impl<K, V> Default for FxHashMap<K, V> {
    #[verifier::external_body]
    fn default() -> (r: Self) ensures r@ == Map::<K, V>::empty() { unimplemented!() }
}
impl<K, V: VpDefault> FxHashMap<K, V> {
    /// rule R11: `map.entry(k).or_default()` is rewritten to this single call
    #[verifier::external_body]
    pub fn vp_entry_or_default(&mut self, k: K) -> (r: &mut V)
        ensures
            *r == (if old(self)@.contains_key(k) { old(self)@[k] } else { V::default_s() }),
            final(self)@ == old(self)@.insert(k, *final(r)),
    { unimplemented!() }
}

pub assume_specification<T, F: FnOnce(T) -> bool>[ Option::<T>::is_some_and ](o: Option<T>, f: F) -> (r: bool)
    requires o matches Some(x) ==> f.requires((x,)),
    ensures
        o is None ==> !r,
        o matches Some(x) ==> f.ensures((x,), r);

pub assume_specification<T, P: FnOnce(&T) -> bool>[ Option::<T>::filter ](o: Option<T>, p: P) -> (r: Option<T>)
    requires o matches Some(x) ==> p.requires((&x,)),
    ensures
        o is None ==> r is None,
        o matches Some(x) ==> (exists|b: bool| p.ensures((&x,), b) && r == (if b { Option::Some(x) } else { Option::None }));

pub assume_specification<T, E, F: FnOnce(E) -> T>[ core::result::Result::<T, E>::unwrap_or_else ](res: core::result::Result<T, E>, f: F) -> (r: T)
    requires res matches Err(e) ==> f.requires((e,)),
    ensures
        res matches Ok(v) ==> r == v,
        res matches Err(e) ==> f.ensures((e,), r);
