// ---- shims/typst_ast.rs : TRUSTED model of typst_syntax::ast accessors and operator tables (typst-syntax 0.13.1) ----
#[derive(Clone, Copy, PartialEq, Eq, Structural)]
pub enum UnOp { Pos, Neg, Not }
#[derive(Clone, Copy, PartialEq, Eq, Structural)]
pub enum BinOp { Add, Sub, Mul, Div, And, Or, Eq, Neq, Lt, Leq, Gt, Geq, Assign, In, NotIn, AddAssign, SubAssign, MulAssign, DivAssign }

impl UnOp {
    pub open spec fn from_kind_s(k: SyntaxKind) -> Option<UnOp> {
        match k { SyntaxKind::Plus => Some(UnOp::Pos), SyntaxKind::Minus => Some(UnOp::Neg), SyntaxKind::Not => Some(UnOp::Not), _ => Option::None }
    }
    pub fn from_kind(token: SyntaxKind) -> (r: Option<UnOp>) ensures r == Self::from_kind_s(token) {
        match token { SyntaxKind::Plus => Some(UnOp::Pos), SyntaxKind::Minus => Some(UnOp::Neg), SyntaxKind::Not => Some(UnOp::Not), _ => Option::None }
    }
}
impl BinOp {
    pub open spec fn from_kind_s(k: SyntaxKind) -> Option<BinOp> {
        match k {
            SyntaxKind::Plus => Some(BinOp::Add), SyntaxKind::Minus => Some(BinOp::Sub), SyntaxKind::Star => Some(BinOp::Mul),
            SyntaxKind::Slash => Some(BinOp::Div), SyntaxKind::And => Some(BinOp::And), SyntaxKind::Or => Some(BinOp::Or),
            SyntaxKind::EqEq => Some(BinOp::Eq), SyntaxKind::ExclEq => Some(BinOp::Neq), SyntaxKind::Lt => Some(BinOp::Lt),
            SyntaxKind::LtEq => Some(BinOp::Leq), SyntaxKind::Gt => Some(BinOp::Gt), SyntaxKind::GtEq => Some(BinOp::Geq),
            SyntaxKind::Eq => Some(BinOp::Assign), SyntaxKind::In => Some(BinOp::In), SyntaxKind::PlusEq => Some(BinOp::AddAssign),
            SyntaxKind::HyphEq => Some(BinOp::SubAssign), SyntaxKind::StarEq => Some(BinOp::MulAssign), SyntaxKind::SlashEq => Some(BinOp::DivAssign),
            _ => Option::None,
        }
    }
    pub fn from_kind(token: SyntaxKind) -> (r: Option<BinOp>) ensures r == Self::from_kind_s(token) {
        match token {
            SyntaxKind::Plus => Some(BinOp::Add), SyntaxKind::Minus => Some(BinOp::Sub), SyntaxKind::Star => Some(BinOp::Mul),
            SyntaxKind::Slash => Some(BinOp::Div), SyntaxKind::And => Some(BinOp::And), SyntaxKind::Or => Some(BinOp::Or),
            SyntaxKind::EqEq => Some(BinOp::Eq), SyntaxKind::ExclEq => Some(BinOp::Neq), SyntaxKind::Lt => Some(BinOp::Lt),
            SyntaxKind::LtEq => Some(BinOp::Leq), SyntaxKind::Gt => Some(BinOp::Gt), SyntaxKind::GtEq => Some(BinOp::Geq),
            SyntaxKind::Eq => Some(BinOp::Assign), SyntaxKind::In => Some(BinOp::In), SyntaxKind::PlusEq => Some(BinOp::AddAssign),
            SyntaxKind::HyphEq => Some(BinOp::SubAssign), SyntaxKind::StarEq => Some(BinOp::MulAssign), SyntaxKind::SlashEq => Some(BinOp::DivAssign),
            _ => Option::None,
        }
    }
    pub open spec fn precedence_s(self) -> nat {
        match self {
            BinOp::Mul | BinOp::Div => 6, BinOp::Add | BinOp::Sub => 5,
            BinOp::Eq | BinOp::Neq | BinOp::Lt | BinOp::Leq | BinOp::Gt | BinOp::Geq | BinOp::In | BinOp::NotIn => 4,
            BinOp::And => 3, BinOp::Or => 2, _ => 1,
        }
    }
    pub fn precedence(self) -> (r: usize) ensures r == self.precedence_s() {
        match self {
            BinOp::Mul | BinOp::Div => 6, BinOp::Add | BinOp::Sub => 5,
            BinOp::Eq | BinOp::Neq | BinOp::Lt | BinOp::Leq | BinOp::Gt | BinOp::Geq | BinOp::In | BinOp::NotIn => 4,
            BinOp::And => 3, BinOp::Or => 2, _ => 1,
        }
    }
    /// the operator's source text; it never starts a line comment
    pub uninterp spec fn as_str_s(self) -> Seq<char>;
    #[verifier::external_body]
    pub fn as_str(self) -> (r: &'static str) ensures r@ == self.as_str_s(), !is_lc(r@), !is_blank(r@) { unimplemented!() }
}

/// `c` is a direct child of `p`
pub open spec fn is_child_of(c: &SyntaxNode, p: &SyntaxNode) -> bool { exists|j: int| 0 <= j < p.children_s().len() && #[trigger] p.children_s()[j] == c }

// Accessors: each returns a typed view of a direct child (or a value computed from the children).
// PARSER FACT used: in an error-free tree the child looked for exists (the real accessors fall back to a placeholder).
impl<'a> ast::Unary<'a> {
    pub uninterp spec fn op_s(self) -> UnOp;
    #[verifier::external_body]
    pub fn op(self) -> (r: UnOp) ensures r == self.op_s() { unimplemented!() }
    #[verifier::external_body]
    pub fn expr(self) -> (r: ast::Expr<'a>) requires self.wf(), tree_wf(self.0) ensures r.wf(), is_child_of(r.node(), self.0) { unimplemented!() }
}
impl<'a> ast::Binary<'a> {
    /// the operator of THIS binary node (`not` followed by `in` is NotIn)
    pub uninterp spec fn op_s(self) -> BinOp;
    #[verifier::external_body]
    pub fn op(self) -> (r: BinOp) ensures r == self.op_s() { unimplemented!() }
    #[verifier::external_body]
    pub fn lhs(self) -> (r: ast::Expr<'a>) requires self.wf(), tree_wf(self.0) ensures r.wf(), is_child_of(r.node(), self.0) { unimplemented!() }
    #[verifier::external_body]
    pub fn rhs(self) -> (r: ast::Expr<'a>) requires self.wf(), tree_wf(self.0) ensures r.wf(), is_child_of(r.node(), self.0) { unimplemented!() }
}
impl<'a> ast::FieldAccess<'a> {
    #[verifier::external_body]
    pub fn target(self) -> (r: ast::Expr<'a>) requires self.wf(), tree_wf(self.0) ensures r.wf(), is_child_of(r.node(), self.0) { unimplemented!() }
    #[verifier::external_body]
    pub fn field(self) -> (r: ast::Ident<'a>) requires self.wf(), tree_wf(self.0) ensures r.wf(), is_child_of(r.node(), self.0) { unimplemented!() }
}
impl<'a> ast::FuncCall<'a> {
    #[verifier::external_body]
    pub fn callee(self) -> (r: ast::Expr<'a>) requires self.wf(), tree_wf(self.0) ensures r.wf(), is_child_of(r.node(), self.0) { unimplemented!() }
    #[verifier::external_body]
    pub fn args(self) -> (r: ast::Args<'a>) requires self.wf(), tree_wf(self.0) ensures r.wf(), is_child_of(r.node(), self.0) { unimplemented!() }
}
impl<'a> ast::Parenthesized<'a> {
    #[verifier::external_body]
    pub fn expr(self) -> (r: ast::Expr<'a>) requires self.wf(), tree_wf(self.0) ensures r.wf(), is_child_of(r.node(), self.0) { unimplemented!() }
    #[verifier::external_body]
    pub fn pattern(self) -> (r: ast::Pattern<'a>) requires self.wf(), tree_wf(self.0) ensures r.wf(), is_child_of(r.node(), self.0) { unimplemented!() }
}
impl<'a> ast::Expr<'a> {
    pub open spec fn is_literal_s(self) -> bool {
        matches!(self, ast::Expr::None(_) | ast::Expr::Auto(_) | ast::Expr::Bool(_) | ast::Expr::Int(_) | ast::Expr::Float(_) | ast::Expr::Numeric(_) | ast::Expr::Str(_))
    }
    pub fn is_literal(self) -> (r: bool) ensures r == self.is_literal_s() {
        matches!(self, ast::Expr::None(_) | ast::Expr::Auto(_) | ast::Expr::Bool(_) | ast::Expr::Int(_) | ast::Expr::Float(_) | ast::Expr::Numeric(_) | ast::Expr::Str(_))
    }
}
impl<'a> ast::Text<'a> {
    #[verifier::external_body]
    pub fn get(self) -> (r: &'a EcoString) ensures r@ == self.0.text_s() { unimplemented!() }
}
impl<'a> ast::Ident<'a> {
    #[verifier::external_body]
    pub fn get(self) -> (r: &'a EcoString) ensures r@ == self.0.text_s() { unimplemented!() }
    #[verifier::external_body]
    pub fn as_str(self) -> (r: &'a str) ensures r@ == self.0.text_s() { unimplemented!() }
}
impl<'a> ast::Strong<'a> {
    #[verifier::external_body]
    pub fn body(self) -> (r: ast::Markup<'a>) requires self.wf(), tree_wf(self.0) ensures r.wf(), is_child_of(r.node(), self.0) { unimplemented!() }
}
impl<'a> ast::Emph<'a> {
    #[verifier::external_body]
    pub fn body(self) -> (r: ast::Markup<'a>) requires self.wf(), tree_wf(self.0) ensures r.wf(), is_child_of(r.node(), self.0) { unimplemented!() }
}
impl<'a> ast::ContentBlock<'a> {
    #[verifier::external_body]
    pub fn body(self) -> (r: ast::Markup<'a>) requires self.wf(), tree_wf(self.0) ensures r.wf(), is_child_of(r.node(), self.0) { unimplemented!() }
}
impl<'a> ast::Ref<'a> {
    /// the target without the leading `@` (text of the RefMarker child minus its first character)
    pub uninterp spec fn target_s(self) -> Seq<char>;
    #[verifier::external_body]
    pub fn target(self) -> (r: &'a str) requires self.wf(), tree_wf(self.0) ensures r@ == self.target_s(), !is_lc(r@) { unimplemented!() }
    #[verifier::external_body]
    pub fn supplement(self) -> (r: Option<ast::ContentBlock<'a>>) requires self.wf(), tree_wf(self.0)
        ensures r matches Some(c) ==> c.wf() && is_child_of(c.node(), self.0) { unimplemented!() }
}
impl<'a> ast::Equation<'a> {
    pub uninterp spec fn block_s(self) -> bool;
    #[verifier::external_body]
    pub fn block(self) -> (r: bool) ensures r == self.block_s() { unimplemented!() }
}
impl<'a> ast::MathDelimited<'a> {
    #[verifier::external_body]
    pub fn open(self) -> (r: ast::Expr<'a>) requires self.wf(), tree_wf(self.0) ensures r.wf(), is_child_of(r.node(), self.0) { unimplemented!() }
    #[verifier::external_body]
    pub fn close(self) -> (r: ast::Expr<'a>) requires self.wf(), tree_wf(self.0) ensures r.wf(), is_child_of(r.node(), self.0) { unimplemented!() }
}
impl<'a> ast::MathPrimes<'a> {
    #[verifier::external_body]
    pub fn count(self) -> (r: usize) ensures r <= self.0.full_text_s().len() { unimplemented!() }
}
impl<'a> ast::CodeBlock<'a> {
    #[verifier::external_body]
    pub fn body(self) -> (r: ast::Code<'a>) requires self.wf(), tree_wf(self.0) ensures r.wf(), is_child_of(r.node(), self.0) { unimplemented!() }
}
impl<'a> ast::Code<'a> {
    #[verifier::external_body]
    pub fn exprs(self) -> (r: VpIter<ast::Expr<'a>>) requires self.wf(), tree_wf(self.0)
        ensures forall|k: int| 0 <= k < r.rest().len() ==> (#[trigger] r.rest()[k]).wf() && is_child_of(r.rest()[k].node(), self.0) { unimplemented!() }
}
impl<'a> ast::Dict<'a> {
    #[verifier::external_body]
    pub fn items(self) -> (r: VpIter<ast::DictItem<'a>>) requires self.wf(), tree_wf(self.0)
        ensures forall|k: int| 0 <= k < r.rest().len() ==> (#[trigger] r.rest()[k]).wf() && is_child_of(r.rest()[k].node(), self.0) { unimplemented!() }
}
impl<'a> ast::Array<'a> {
    #[verifier::external_body]
    pub fn items(self) -> (r: VpIter<ast::ArrayItem<'a>>) requires self.wf(), tree_wf(self.0)
        ensures forall|k: int| 0 <= k < r.rest().len() ==> (#[trigger] r.rest()[k]).wf() && is_child_of(r.rest()[k].node(), self.0) { unimplemented!() }
}
impl<'a> ast::Destructuring<'a> {
    #[verifier::external_body]
    pub fn items(self) -> (r: VpIter<ast::DestructuringItem<'a>>) requires self.wf(), tree_wf(self.0)
        ensures forall|k: int| 0 <= k < r.rest().len() ==> (#[trigger] r.rest()[k]).wf() && is_child_of(r.rest()[k].node(), self.0) { unimplemented!() }
}
impl<'a> ast::Params<'a> {
    #[verifier::external_body]
    pub fn children(self) -> (r: VpIter<ast::Param<'a>>) requires self.wf(), tree_wf(self.0)
        ensures forall|k: int| 0 <= k < r.rest().len() ==> (#[trigger] r.rest()[k]).wf() && is_child_of(r.rest()[k].node(), self.0) { unimplemented!() }
}
impl<'a> ast::Args<'a> {
    #[verifier::external_body]
    pub fn items(self) -> (r: VpIter<ast::Arg<'a>>) requires self.wf(), tree_wf(self.0)
        ensures forall|k: int| 0 <= k < r.rest().len() ==> (#[trigger] r.rest()[k]).wf() && is_child_of(r.rest()[k].node(), self.0) { unimplemented!() }
}
/// rule R9: `v.extend(iter)` for a `VpIter`
#[verifier::external_body]
pub fn vp_extend<T>(dst: &mut Vec<T>, src: VpIter<T>)
    ensures final(dst)@ == old(dst)@ + src.rest(),
{ unimplemented!() }
impl<'a> ast::Math<'a> {
    #[verifier::external_body]
    pub fn exprs(self) -> (r: VpIter<ast::Expr<'a>>) requires self.wf(), tree_wf(self.0)
        ensures forall|k: int| 0 <= k < r.rest().len() ==> (#[trigger] r.rest()[k]).wf() && is_child_of(r.rest()[k].node(), self.0) { unimplemented!() }
}
