// ---- shims/typst_ast.rs : TRUSTED model of typst_syntax::ast accessors and operator tables (typst-syntax 0.13.1) ----
#[derive(Clone, Copy, PartialEq, Eq, Structural)]
pub enum UnOp { Pos, Neg, Not }
#[derive(Clone, Copy, PartialEq, Eq, Structural)]
pub enum BinOp { Add, Sub, Mul, Div, And, Or, Eq, Neq, Lt, Leq, Gt, Geq, Assign, In, NotIn, AddAssign, SubAssign, MulAssign, DivAssign }

impl UnOp {
    pub open spec fn from_kind_s(k: SyntaxKind) -> Option<UnOp> {
        match k { SyntaxKind::Plus => Some(UnOp::Pos), SyntaxKind::Minus => Some(UnOp::Neg), SyntaxKind::Not => Some(UnOp::Not), _ => Option::None }
    }
    pub fn from_kind(token: SyntaxKind) -> (r: Option<UnOp>) ensures r == Self::from_kind_s(token) {
        match token { SyntaxKind::Plus => Some(UnOp::Pos), SyntaxKind::Minus => Some(UnOp::Neg), SyntaxKind::Not => Some(UnOp::Not), _ => Option::None }
    }
}
impl BinOp {
    pub open spec fn from_kind_s(k: SyntaxKind) -> Option<BinOp> {
        match k {
            SyntaxKind::Plus => Some(BinOp::Add), SyntaxKind::Minus => Some(BinOp::Sub), SyntaxKind::Star => Some(BinOp::Mul),
            SyntaxKind::Slash => Some(BinOp::Div), SyntaxKind::And => Some(BinOp::And), SyntaxKind::Or => Some(BinOp::Or),
            SyntaxKind::EqEq => Some(BinOp::Eq), SyntaxKind::ExclEq => Some(BinOp::Neq), SyntaxKind::Lt => Some(BinOp::Lt),
            SyntaxKind::LtEq => Some(BinOp::Leq), SyntaxKind::Gt => Some(BinOp::Gt), SyntaxKind::GtEq => Some(BinOp::Geq),
            SyntaxKind::Eq => Some(BinOp::Assign), SyntaxKind::In => Some(BinOp::In), SyntaxKind::PlusEq => Some(BinOp::AddAssign),
            SyntaxKind::HyphEq => Some(BinOp::SubAssign), SyntaxKind::StarEq => Some(BinOp::MulAssign), SyntaxKind::SlashEq => Some(BinOp::DivAssign),
            _ => Option::None,
        }
    }
    pub fn from_kind(token: SyntaxKind) -> (r: Option<BinOp>) ensures r == Self::from_kind_s(token) {
        match token {
            SyntaxKind::Plus => Some(BinOp::Add), SyntaxKind::Minus => Some(BinOp::Sub), SyntaxKind::Star => Some(BinOp::Mul),
            SyntaxKind::Slash => Some(BinOp::Div), SyntaxKind::And => Some(BinOp::And), SyntaxKind::Or => Some(BinOp::Or),
            SyntaxKind::EqEq => Some(BinOp::Eq), SyntaxKind::ExclEq => Some(BinOp::Neq), SyntaxKind::Lt => Some(BinOp::Lt),
            SyntaxKind::LtEq => Some(BinOp::Leq), SyntaxKind::Gt => Some(BinOp::Gt), SyntaxKind::GtEq => Some(BinOp::Geq),
            SyntaxKind::Eq => Some(BinOp::Assign), SyntaxKind::In => Some(BinOp::In), SyntaxKind::PlusEq => Some(BinOp::AddAssign),
            SyntaxKind::HyphEq => Some(BinOp::SubAssign), SyntaxKind::StarEq => Some(BinOp::MulAssign), SyntaxKind::SlashEq => Some(BinOp::DivAssign),
            _ => Option::None,
        }
    }
    pub open spec fn precedence_s(self) -> nat {
        match self {
            BinOp::Mul | BinOp::Div => 6, BinOp::Add | BinOp::Sub => 5,
            BinOp::Eq | BinOp::Neq | BinOp::Lt | BinOp::Leq | BinOp::Gt | BinOp::Geq | BinOp::In | BinOp::NotIn => 4,
            BinOp::And => 3, BinOp::Or => 2, _ => 1,
        }
    }
    pub fn precedence(self) -> (r: usize) ensures r == self.precedence_s() {
        match self {
            BinOp::Mul | BinOp::Div => 6, BinOp::Add | BinOp::Sub => 5,
            BinOp::Eq | BinOp::Neq | BinOp::Lt | BinOp::Leq | BinOp::Gt | BinOp::Geq | BinOp::In | BinOp::NotIn => 4,
            BinOp::And => 3, BinOp::Or => 2, _ => 1,
        }
    }
    /// the operator's source text; it never starts a line comment
    pub uninterp spec fn as_str_s(self) -> Seq<char>;
    #[verifier::external_body]
    pub fn as_str(self) -> (r: &'static str) ensures r@ == self.as_str_s(), !is_lc(r@), !is_blank(r@) { unimplemented!() }
}

/// C01: the text convert_binary_chain must emit for the operator token `child` of the operand `node`: `not in` for the `in` of a
/// NotIn operand (the `not` token has no operator of its own), else the operator the token itself denotes
pub open spec fn binary_op_text(node: &SyntaxNode, child: &SyntaxNode) -> Seq<char> {
    if child.kind_s() == SyntaxKind::In && node.kind_s() == SyntaxKind::Binary && ast::Binary(node).op_s() == BinOp::NotIn { BinOp::NotIn.as_str_s() }
    else { match BinOp::from_kind_s(child.kind_s()) { Some(op) => op.as_str_s(), None => Seq::empty() } }
}
/// the nodes `resolve_binary_chain` yields for a binary expression (outermost first); named by its definitional clause
pub uninterp spec fn binary_chain_s<'a>(n: &'a SyntaxNode) -> Seq<&'a SyntaxNode>;
/// no operand of the chain is a `not in` (whose two tokens are printed as the single text `not in`: W as stated compares tokens)
pub open spec fn chain_without_not_in(nd: Seq<&SyntaxNode>) -> bool {
    forall|k: int| 0 <= k < nd.len() && (#[trigger] nd[k]).kind_s() == SyntaxKind::Binary ==> ast::Binary(nd[k]).op_s() != BinOp::NotIn
}
/// `c` is a direct child of `p`
pub open spec fn is_child_of(c: &SyntaxNode, p: &SyntaxNode) -> bool { exists|j: int| 0 <= j < p.children_s().len() && #[trigger] p.children_s()[j] == c }

// Accessors: each returns a typed view of a direct child (or a value computed from the children).
// PARSER FACT used: in an error-free tree the child looked for exists (the real accessors fall back to a placeholder).
impl<'a> ast::Unary<'a> {
    pub uninterp spec fn op_s(self) -> UnOp;
    #[verifier::external_body]
    pub fn op(self) -> (r: UnOp) ensures r == self.op_s() { unimplemented!() }
    #[verifier::external_body]
    pub fn expr(self) -> (r: ast::Expr<'a>) requires self.wf(), tree_wf(self.0) ensures r.wf(), is_child_of(r.node(), self.0) { unimplemented!() }
}
impl<'a> ast::Binary<'a> {
    /// the operator of THIS binary node (`not` followed by `in` is NotIn)
    pub uninterp spec fn op_s(self) -> BinOp;
    #[verifier::external_body]
    pub fn op(self) -> (r: BinOp) ensures r == self.op_s() { unimplemented!() }
    #[verifier::external_body]
    pub fn lhs(self) -> (r: ast::Expr<'a>) requires self.wf(), tree_wf(self.0) ensures r.wf(), is_child_of(r.node(), self.0) { unimplemented!() }
    #[verifier::external_body]
    pub fn rhs(self) -> (r: ast::Expr<'a>) requires self.wf(), tree_wf(self.0) ensures r.wf(), is_child_of(r.node(), self.0) { unimplemented!() }
}
impl<'a> ast::FieldAccess<'a> {
    #[verifier::external_body]
    pub fn target(self) -> (r: ast::Expr<'a>) requires self.wf(), tree_wf(self.0) ensures r.wf(), is_child_of(r.node(), self.0), self.0.children_s().len() > 0 && r.node() == self.0.children_s()[0] { unimplemented!() }
    #[verifier::external_body]
    pub fn field(self) -> (r: ast::Ident<'a>) requires self.wf(), tree_wf(self.0) ensures r.wf(), is_child_of(r.node(), self.0), 0 <= field_idx_s(self.0) < self.0.children_s().len() && r.node() == self.0.children_s()[field_idx_s(self.0)] { unimplemented!() }
}
impl<'a> ast::FuncCall<'a> {
    #[verifier::external_body]
    pub fn callee(self) -> (r: ast::Expr<'a>) requires self.wf(), tree_wf(self.0) ensures r.wf(), is_child_of(r.node(), self.0), r.node() == self.callee_s() { unimplemented!() }
    pub uninterp spec fn callee_s(self) -> &'a SyntaxNode;
    pub uninterp spec fn args_s(self) -> &'a SyntaxNode;
    #[verifier::external_body]
    pub fn args(self) -> (r: ast::Args<'a>) requires self.wf(), tree_wf(self.0) ensures r.wf(), r.0 == self.args_s(), is_child_of(r.node(), self.0), tree_wf(r.0) { unimplemented!() }
}
impl<'a> ast::Parenthesized<'a> {
    #[verifier::external_body]
    pub fn expr(self) -> (r: ast::Expr<'a>) requires self.wf(), tree_wf(self.0) ensures r.wf(), is_child_of(r.node(), self.0) { unimplemented!() }
    #[verifier::external_body]
    pub fn pattern(self) -> (r: ast::Pattern<'a>) requires self.wf(), tree_wf(self.0) ensures r.wf(), is_child_of(r.node(), self.0),
        0 <= paren_body_idx_s(self.0) < self.0.children_s().len() && r.node() == self.0.children_s()[paren_body_idx_s(self.0)] { unimplemented!() }
}
impl<'a> ast::Expr<'a> {
    pub open spec fn is_literal_s(self) -> bool {
        matches!(self, ast::Expr::None(_) | ast::Expr::Auto(_) | ast::Expr::Bool(_) | ast::Expr::Int(_) | ast::Expr::Float(_) | ast::Expr::Numeric(_) | ast::Expr::Str(_))
    }
    pub fn is_literal(self) -> (r: bool) ensures r == self.is_literal_s() {
        matches!(self, ast::Expr::None(_) | ast::Expr::Auto(_) | ast::Expr::Bool(_) | ast::Expr::Int(_) | ast::Expr::Float(_) | ast::Expr::Numeric(_) | ast::Expr::Str(_))
    }
}
impl<'a> ast::Text<'a> {
    #[verifier::external_body]
    pub fn get(self) -> (r: &'a EcoString) ensures r@ == self.0.text_s() { unimplemented!() }
}
impl<'a> ast::Ident<'a> {
    #[verifier::external_body]
    pub fn get(self) -> (r: &'a EcoString) ensures r@ == self.0.text_s() { unimplemented!() }
    #[verifier::external_body]
    pub fn as_str(self) -> (r: &'a str) ensures r@ == self.0.text_s() { unimplemented!() }
}
impl<'a> ast::Strong<'a> {
    #[verifier::external_body]
    pub fn body(self) -> (r: ast::Markup<'a>) requires self.wf(), tree_wf(self.0) ensures r.wf(), is_child_of(r.node(), self.0) { unimplemented!() }
}
impl<'a> ast::Emph<'a> {
    #[verifier::external_body]
    pub fn body(self) -> (r: ast::Markup<'a>) requires self.wf(), tree_wf(self.0) ensures r.wf(), is_child_of(r.node(), self.0) { unimplemented!() }
}
impl<'a> ast::ContentBlock<'a> {
    #[verifier::external_body]
    pub fn body(self) -> (r: ast::Markup<'a>) requires self.wf(), tree_wf(self.0) ensures r.wf(), is_child_of(r.node(), self.0) { unimplemented!() }
}
impl<'a> ast::Ref<'a> {
    /// the target without the leading `@` (text of the RefMarker child minus its first character)
    pub uninterp spec fn target_s(self) -> Seq<char>;
    #[verifier::external_body]
    pub fn target(self) -> (r: &'a str) requires self.wf(), tree_wf(self.0) ensures r@ == self.target_s(), !is_lc(r@) { unimplemented!() }
    #[verifier::external_body]
    pub fn supplement(self) -> (r: Option<ast::ContentBlock<'a>>) requires self.wf(), tree_wf(self.0)
        ensures r == self.supplement_s(), r matches Some(c) ==> c.wf() && is_child_of(c.node(), self.0) { unimplemented!() }
    /// the content block of `@target[supplement]`, if any
    pub uninterp spec fn supplement_s(self) -> Option<ast::ContentBlock<'a>>;
}
impl<'a> ast::Markup<'a> {
    /// the children that are expressions, in order (`#`, `;` and comments are not among them)
    #[verifier::external_body]
    pub fn exprs(self) -> (r: VpIter<ast::Expr<'a>>) requires self.wf(), tree_wf(self.0)
        ensures forall|k: int| 0 <= k < r.rest().len() ==> (#[trigger] r.rest()[k]).wf() && is_child_of(r.rest()[k].node(), self.0) { unimplemented!() }
}
impl<'a> ast::Equation<'a> {
    pub uninterp spec fn block_s(self) -> bool;
    #[verifier::external_body]
    pub fn block(self) -> (r: bool) ensures r == self.block_s() { unimplemented!() }
}
impl<'a> ast::MathDelimited<'a> {
    #[verifier::external_body]
    pub fn open(self) -> (r: ast::Expr<'a>) requires self.wf(), tree_wf(self.0) ensures r.wf(), is_child_of(r.node(), self.0) { unimplemented!() }
    #[verifier::external_body]
    pub fn close(self) -> (r: ast::Expr<'a>) requires self.wf(), tree_wf(self.0) ensures r.wf(), is_child_of(r.node(), self.0) { unimplemented!() }
}
impl<'a> ast::MathPrimes<'a> {
    #[verifier::external_body]
    pub fn count(self) -> (r: usize) ensures r <= self.0.full_text_s().len() { unimplemented!() }
}
impl<'a> ast::CodeBlock<'a> {
    #[verifier::external_body]
    pub fn body(self) -> (r: ast::Code<'a>) requires self.wf(), tree_wf(self.0) ensures r.wf(), is_child_of(r.node(), self.0) { unimplemented!() }
}
impl<'a> ast::Code<'a> {
    #[verifier::external_body]
    pub fn exprs(self) -> (r: VpIter<ast::Expr<'a>>) requires self.wf(), tree_wf(self.0)
        ensures forall|k: int| 0 <= k < r.rest().len() ==> (#[trigger] r.rest()[k]).wf() && is_child_of(r.rest()[k].node(), self.0) { unimplemented!() }
}
impl<'a> ast::Dict<'a> {
    #[verifier::external_body]
    pub fn items(self) -> (r: VpIter<ast::DictItem<'a>>) requires self.wf(), tree_wf(self.0)
        ensures forall|k: int| 0 <= k < r.rest().len() ==> (#[trigger] r.rest()[k]).wf() && is_child_of(r.rest()[k].node(), self.0) { unimplemented!() }
}
impl<'a> ast::Array<'a> {
    #[verifier::external_body]
    pub fn items(self) -> (r: VpIter<ast::ArrayItem<'a>>) requires self.wf(), tree_wf(self.0)
        ensures forall|k: int| 0 <= k < r.rest().len() ==> (#[trigger] r.rest()[k]).wf() && is_child_of(r.rest()[k].node(), self.0) { unimplemented!() }
}
impl<'a> ast::Destructuring<'a> {
    #[verifier::external_body]
    pub fn items(self) -> (r: VpIter<ast::DestructuringItem<'a>>) requires self.wf(), tree_wf(self.0)
        ensures forall|k: int| 0 <= k < r.rest().len() ==> (#[trigger] r.rest()[k]).wf() && is_child_of(r.rest()[k].node(), self.0) { unimplemented!() }
}
impl<'a> ast::Params<'a> {
    #[verifier::external_body]
    pub fn children(self) -> (r: VpIter<ast::Param<'a>>) requires self.wf(), tree_wf(self.0)
        ensures forall|k: int| 0 <= k < r.rest().len() ==> (#[trigger] r.rest()[k]).wf() && is_child_of(r.rest()[k].node(), self.0) { unimplemented!() }
}
impl<'a> ast::Args<'a> {
    #[verifier::external_body]
    pub fn items(self) -> (r: VpIter<ast::Arg<'a>>) requires self.wf(), tree_wf(self.0)
        ensures forall|k: int| 0 <= k < r.rest().len() ==> (#[trigger] r.rest()[k]).wf() && is_child_of(r.rest()[k].node(), self.0) { unimplemented!() }
}
/// rule R9: `v.extend(iter)` for a `VpIter`
#[verifier::external_body]
pub fn vp_extend<T>(dst: &mut Vec<T>, src: VpIter<T>)
    ensures final(dst)@ == old(dst)@ + src.rest(),
{ unimplemented!() }
impl<'a> ast::Math<'a> {
    #[verifier::external_body]
    pub fn exprs(self) -> (r: VpIter<ast::Expr<'a>>) requires self.wf(), tree_wf(self.0)
        ensures forall|k: int| 0 <= k < r.rest().len() ==> (#[trigger] r.rest()[k]).wf() && is_child_of(r.rest()[k].node(), self.0) { unimplemented!() }
}

// ---- imports (C19) ----
/// the name an import item binds: the last path segment of `a.b.c`, the name after `as` of `a.b as d`
pub uninterp spec fn import_bound_name(n: &SyntaxNode) -> Seq<char>;
/// the original (last path segment) name of a renamed item
pub uninterp spec fn import_original_name(n: &SyntaxNode) -> Seq<char>;
pub open spec fn is_import_item(n: &SyntaxNode) -> bool { n.kind_s() == SyntaxKind::ImportItemPath || n.kind_s() == SyntaxKind::RenamedImportItem }
/// C19: the names bound by the items are pairwise distinct
/// C19: the node is a comment or has a comment anywhere below it (recursion over the opaque tree: uninterpreted, defined by the axiom)
pub uninterp spec fn contains_comment_s(n: &SyntaxNode) -> bool;
#[verifier::external_body]
pub proof fn axiom_contains_comment(n: &SyntaxNode)
    ensures contains_comment_s(n) == (is_comment_kind(n.kind_s()) || (exists|j: int| 0 <= j < n.children_s().len() && contains_comment_s(#[trigger] n.children_s()[j]))),
{}
/// the node is an item of this import statement: a direct child (parenthesised list) or a child of its ImportItems node
pub open spec fn import_item_of(import: &SyntaxNode, n: &SyntaxNode) -> bool {
    is_child_of(n, import) || (exists|k: int| 0 <= k < import.children_s().len() && (#[trigger] import.children_s()[k]).kind_s() == SyntaxKind::ImportItems && is_child_of(n, import.children_s()[k]))
}
pub proof fn lemma_item_comment(import: &SyntaxNode, n: &SyntaxNode)
    requires import_item_of(import, n), is_comment_kind(n.kind_s()),
    ensures contains_comment_s(import),
{
    axiom_contains_comment(n); axiom_contains_comment(import);
    if is_child_of(n, import) {
        let j = choose|j: int| 0 <= j < import.children_s().len() && #[trigger] import.children_s()[j] == n;
        assert(contains_comment_s(import.children_s()[j]));
    } else {
        let k = choose|k: int| 0 <= k < import.children_s().len() && (#[trigger] import.children_s()[k]).kind_s() == SyntaxKind::ImportItems && is_child_of(n, import.children_s()[k]);
        let c = import.children_s()[k];
        axiom_contains_comment(c);
        let j = choose|j: int| 0 <= j < c.children_s().len() && #[trigger] c.children_s()[j] == n;
        assert(contains_comment_s(c.children_s()[j]));
        assert(contains_comment_s(c));
    }
}
pub open spec fn import_names_distinct(nodes: Seq<&SyntaxNode>) -> bool {
    forall|i: int, j: int| 0 <= i < j < nodes.len() && is_import_item(nodes[i]) && is_import_item(nodes[j]) ==> import_bound_name(nodes[i]) != import_bound_name(nodes[j])
}
impl<'a> ast::ImportItemPath<'a> {
    #[verifier::external_body]
    pub fn name(self) -> (r: ast::Ident<'a>) requires self.wf() ensures r.wf(), r.0.text_s() == import_bound_name(self.0) { unimplemented!() }
}
impl<'a> ast::RenamedImportItem<'a> {
    #[verifier::external_body]
    pub fn new_name(self) -> (r: ast::Ident<'a>) requires self.wf() ensures r.wf(), r.0.text_s() == import_bound_name(self.0) { unimplemented!() }
    #[verifier::external_body]
    pub fn original_name(self) -> (r: ast::Ident<'a>) requires self.wf() ensures r.wf(), r.0.text_s() == import_original_name(self.0) { unimplemented!() }
    #[verifier::external_body]
    pub fn path(self) -> (r: ast::ImportItemPath<'a>) requires self.wf() ensures r.wf(), is_child_of(r.0, self.0) { unimplemented!() }
}
pub proof fn lemma_names_distinct_skip(nodes: Seq<&SyntaxNode>, k: int)
    requires 0 <= k < nodes.len(), import_names_distinct(nodes.subrange(0, k)), !is_import_item(nodes[k]),
    ensures import_names_distinct(nodes.subrange(0, k + 1)),
{
    let a = nodes.subrange(0, k); let b = nodes.subrange(0, k + 1);
    assert forall|i: int, j: int| 0 <= i < j < b.len() && is_import_item(b[i]) && is_import_item(b[j]) implies import_bound_name(b[i]) != import_bound_name(b[j]) by {
        assert(b[j] == nodes[j]); assert(b[i] == nodes[i]);
        if j < k { assert(a[i] == nodes[i] && a[j] == nodes[j]); }
    }
}
pub proof fn lemma_names_distinct_extend(nodes: Seq<&SyntaxNode>, k: int)
    requires 0 <= k < nodes.len(), import_names_distinct(nodes.subrange(0, k)),
        is_import_item(nodes[k]) ==> forall|i: int| 0 <= i < k && is_import_item(#[trigger] nodes[i]) ==> import_bound_name(nodes[i]) != import_bound_name(nodes[k]),
    ensures import_names_distinct(nodes.subrange(0, k + 1)),
{
    let a = nodes.subrange(0, k); let b = nodes.subrange(0, k + 1);
    assert forall|i: int, j: int| 0 <= i < j < b.len() && is_import_item(b[i]) && is_import_item(b[j]) implies import_bound_name(b[i]) != import_bound_name(b[j]) by {
        assert(b[j] == nodes[j]); assert(b[i] == nodes[i]);
        if j < k { assert(a[i] == nodes[i] && a[j] == nodes[j]); }
    }
}
/// a permutation keeps every element well formed; a comment-free sequence has no line comment to terminate
pub proof fn lemma_sorted_wf(a: Seq<&SyntaxNode>, b: Seq<&SyntaxNode>)
    requires
        a.to_multiset() == b.to_multiset(),
        forall|j: int| 0 <= j < a.len() ==> tree_wf(#[trigger] a[j]),
        lc_followed(a),
        b == a || forall|k: int| 0 <= k < a.len() ==> !is_comment_kind(#[trigger] a[k].kind_s()),
    ensures
        forall|j: int| 0 <= j < b.len() ==> tree_wf(#[trigger] b[j]),
        lc_followed(b),
{
    if b != a {
        assert forall|j: int| 0 <= j < b.len() implies tree_wf(#[trigger] b[j]) && !is_comment_kind(b[j].kind_s()) by {
            assert(b.to_multiset().count(b[j]) > 0) by { b.to_multiset_ensures(); assert(b.contains(b[j])); }
            a.to_multiset_ensures();
            assert(a.contains(b[j]));
            let i = choose|i: int| 0 <= i < a.len() && a[i] == b[j];
            assert(tree_wf(a[i]));
        }
    }
}

// ---- function calls / tables (C01 table reflow gate) ----
impl<'a> ast::Named<'a> {
    #[verifier::external_body]
    pub fn name(self) -> (r: ast::Ident<'a>) requires self.wf(), tree_wf(self.0) ensures r.wf(), is_child_of(r.node(), self.0) { unimplemented!() }
    #[verifier::external_body]
    pub fn expr(self) -> (r: ast::Expr<'a>) requires self.wf(), tree_wf(self.0) ensures r.wf(), is_child_of(r.node(), self.0) { unimplemented!() }
}
impl<'a> ast::Closure<'a> {
    /// the name of a named closure (`let f(x) = ..`): the Ident child in front of the parameter list, if any
    #[verifier::external_body]
    pub fn name(self) -> (r: Option<ast::Ident<'a>>) requires self.wf(), tree_wf(self.0) ensures r matches Some(i) ==> i.wf() && is_child_of(i.node(), self.0) { unimplemented!() }
}
impl<'a> ast::Spread<'a> {
    #[verifier::external_body]
    pub fn expr(self) -> (r: ast::Expr<'a>) requires self.wf(), tree_wf(self.0) ensures r.wf(), is_child_of(r.node(), self.0) { unimplemented!() }
}
impl<'a> ast::Int<'a> {
    pub uninterp spec fn value_s(self) -> i64;
    #[verifier::external_body]
    pub fn get(self) -> (r: i64) ensures r == self.value_s() { unimplemented!() }
}
/// the arguments between the parentheses of a call, as the printer enumerates them (`get_parenthesized_args`)
pub uninterp spec fn paren_args_s<'a>(args: &'a SyntaxNode) -> Seq<ast::Arg<'a>>;
/// source text of the callee of a call
pub uninterp spec fn callee_text_s(call: &SyntaxNode) -> Seq<char>;
impl<'a> ast::Raw<'a> {
    pub uninterp spec fn block_s(self) -> bool;
    #[verifier::external_body]
    pub fn block(self) -> (r: bool) ensures r == self.block_s() { unimplemented!() }
    #[verifier::external_body]
    pub fn lines(self) -> (r: VpIter<ast::Text<'a>>) requires self.wf(), tree_wf(self.0)
        ensures forall|k: int| 0 <= k < r.rest().len() ==> (#[trigger] r.rest()[k]).wf() && is_child_of(r.rest()[k].node(), self.0) { unimplemented!() }
}
